#!/bin/bash
# Apply every kept seeded change again and run the check(s) that are recorded as detecting it (quick tier).
#   tools/rerun_seeds.sh [<glob of seed dirs, default seeded/*>]     results: .work/rerun_seeds.tsv (dir, check, verdict)
cd "$(dirname "${BASH_SOURCE[0]}")/.."
out=.work/rerun_seeds.tsv; : > "$out"
for d in ${1:-seeded/*}; do
  [ -f "$d/patch.diff" ] && [ -f "$d/meta.json" ] || continue
  checks=$(python3 -c "import json,sys; m=json.load(open('$d/meta.json')); print(' '.join(x for x in m.get('detected_by',[]) if len(x)==3))")
  [ -n "$checks" ] || continue
  res=$(tools/run_mutant.sh "$PWD/$d/patch.diff" $checks 2>&1)
  for c in $checks; do
    line=$(printf '%s\n' "$res" | grep "^$c exit" | head -1)
    if printf '%s' "$line" | grep -q "exit=1"; then v=detected; else v="NOT-DETECTED ($line)"; fi
    printf '%s\t%s\t%s\n' "$(basename $d)" "$c" "$v" >> "$out"
  done
done
echo ALL-DONE >> "$out"
