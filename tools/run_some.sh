#!/bin/bash
# Run the given checks at a tier, sequentially: tools/run_some.sh <tier> <Cxx>...   (log: .work/run_some-<tier>.log)
cd "$(dirname "${BASH_SOURCE[0]}")/.."
tier="$1"; shift; log=".work/run_some-$tier.log"; : > "$log"
for id in "$@"; do
  t0=$(date +%s)
  out=$(./check "$id" "$tier" 2>&1); rc=$?
  echo "$id rc=$rc $(( $(date +%s) - t0 ))s $(printf '%s\n' "$out" | grep -E '^SUMMARY' | tail -1)" >> "$log"
  printf '%s\n' "$out" | grep -E '^(VIOLATION|INCONCLUSIVE|BROKEN|KNOWN)' | head -8 >> "$log"
done
echo ALL-DONE >> "$log"
