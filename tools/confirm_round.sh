#!/bin/bash
# confirm both variants of the given worktrees, 4 worktrees at a time:  tools/confirm_round.sh /tmp/s6-C03 /tmp/s6-C05 ...
cd "$(dirname "${BASH_SOURCE[0]}")/.."
printf '%s\n' "$@" | xargs -P 4 -I{} sh -c 'for v in a b; do [ -f {}/SEED/$v.patch.diff ] && DEMO_DIR=$(cat {}/SEED/$v.demodir 2>/dev/null || echo crates/lib/tests) PKG=$(cat {}/SEED/$v.pkg 2>/dev/null || echo gamedig) tools/eval_seed2.sh confirm {} $v >/dev/null 2>&1; done'
for w in "$@"; do for v in a b; do echo "== $w $v"; cut -c1-300 $w/SEED/$v.confirm.txt 2>/dev/null; done; done
