#!/bin/bash
# serial phase: tools/file_round.sh <round> Cxx Cyy ...   (worktrees /tmp/s<round>-Cxx, both variants, own check only)
cd "$(dirname "${BASH_SOURCE[0]}")/.."
r="$1"; shift
for id in "$@"; do for v in a b; do
  [ -f /tmp/s$r-$id/SEED/$v.confirm.txt ] || continue
  tools/eval_seed2.sh file /tmp/s$r-$id $v $id $r $id 2>&1 | tail -2 >> .work/file_round.log
done; done
echo "DONE $*" >> .work/file_round.log
