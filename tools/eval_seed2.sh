#!/bin/bash
# Two-phase form of eval_seed.sh, so that the confirmation (slow, in the scratch worktree) can run for many
# seeds in parallel while the runs against /repo stay serial.
#   tools/eval_seed2.sh confirm <worktree> <a|b>                 -> <worktree>/SEED/<v>.confirm.txt
#   tools/eval_seed2.sh file <worktree> <a|b> <Cxx> <round> <check>...  -> seeded/<Cxx>r<round>-<v>/
set -u
mode="$1"; WT="$2"; V="$3"
VERIF_ROOT="$(cd "$(dirname "${BASH_SOURCE[0]}")/.." && pwd)"
P="$WT/SEED/$V.patch.diff"; D="$WT/SEED/$V.demo.rs"
[ -f "$P" ] || { echo "no patch $P"; exit 2; }
export CARGO_NET_OFFLINE=true
if [ "$mode" = confirm ]; then
  cd "$WT" || exit 2
  git checkout -q -- . 2>/dev/null
  DEMO_DIR="${DEMO_DIR:-crates/lib/tests}"; PKG="${PKG:-gamedig}"; FEAT="${FEATURES:+--features $FEATURES}"
  mkdir -p "$DEMO_DIR"; rm -f crates/*/tests/seed_demo_*.rs
  git apply "$P" || { echo "patch does not apply" > "$WT/SEED/$V.confirm.txt"; exit 2; }
  suite=$(cargo test --workspace --offline --no-fail-fast 2>&1 | grep -E "^test .* \.\.\. FAILED|^error\[|^error: could not compile" | sort -u | tr '\n' ' ')
  cp "$D" "$DEMO_DIR/seed_demo_$V.rs"
  demo_with=$(cargo test -p $PKG --offline $FEAT --test "seed_demo_$V" 2>&1 | grep -E "^test result|^error\[|^error: could not" | tail -1)
  git apply -R "$P"
  demo_without=$(cargo test -p $PKG --offline $FEAT --test "seed_demo_$V" 2>&1 | grep -E "^test result|^error\[|^error: could not" | tail -1)
  rm -f crates/*/tests/seed_demo_*.rs
  printf 'suite\t%s\nwithout\t%s\nwith\t%s\nplacement\t%s\n' "$suite" "$demo_without" "$demo_with" "$DEMO_DIR/seed_demo_$V.rs" > "$WT/SEED/$V.confirm.txt"
  cat "$WT/SEED/$V.confirm.txt"
  exit 0
fi
ID="$4"; ROUND="$5"; shift 5
cd "$VERIF_ROOT"
res=$(tools/run_mutant.sh "$P" "$@" 2>&1)
echo "$res"
dir="$VERIF_ROOT/seeded/${ID}r${ROUND}-$V"; mkdir -p "$dir"
cp "$P" "$dir/patch.diff"; cp "$D" "$dir/demo.rs"; cp "$WT/SEED/notes.md" "$dir/notes.md"
python3 - "$dir" "$ID" "$V" "$WT/SEED/$V.confirm.txt" "$res" "$ROUND" <<'PY'
import json,sys
d,idp,v,cf,res,rnd=sys.argv[1:7]
c=dict(l.rstrip('\n').split('\t',1) for l in open(cf) if '\t' in l)
meta={"property":idp,"variant":v,"round":int(rnd),"origin":"sub-agent given only the property text and a scratch worktree","demo_placement":c.get("placement",""),
 "confirmed":{"existing_suite_failures_with_change":c.get("suite","").strip(),"demo_without_change":c.get("without",""),"demo_with_change":c.get("with","")},
 "checks_run_against_it":[l for l in res.splitlines() if l.startswith('C')],
 "detected_by":[l.split()[0] for l in res.splitlines() if l.startswith('C') and 'violations=0' not in l]}
json.dump(meta,open(d+'/meta.json','w'),indent=1)
print(idp+'-'+v, json.dumps(meta["detected_by"]))
PY
