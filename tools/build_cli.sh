#!/bin/bash
# Build gamedig_cli from /repo's working tree into /verif/.work/cli-target (hooks off: the CLI runs on real sockets).
set -u
VERIF_ROOT="$(cd "$(dirname "${BASH_SOURCE[0]}")/.." && pwd)"
export CARGO_NET_OFFLINE=true
unset RUSTFLAGS
mkdir -p "$VERIF_ROOT/.work"
( cd /repo && CARGO_TARGET_DIR="$VERIF_ROOT/.work/cli-target" cargo build --offline -p gamedig_cli ) >"$VERIF_ROOT/.work/build-cli.log" 2>&1 || { echo "HARNESS-ERROR: building gamedig_cli failed (see $VERIF_ROOT/.work/build-cli.log)" >&2; grep -E "^error" -A6 "$VERIF_ROOT/.work/build-cli.log" | head -40 >&2; exit 2; }
