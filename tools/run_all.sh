#!/bin/bash
# Run every registered check at a tier, sequentially; one summary line per check in .work/run_all-<tier>.log
cd "$(dirname "${BASH_SOURCE[0]}")/.."
tier="${1:-quick}"; log=".work/run_all-$tier.log"; : > "$log"
for id in $(python3 -c "import json; print(' '.join(c['property_id'] for c in json.load(open('MANIFEST.json'))['checks']))"); do
  t0=$(date +%s)
  out=$(./check "$id" "$tier" 2>&1); rc=$?
  echo "$id rc=$rc $(( $(date +%s) - t0 ))s $(printf '%s\n' "$out" | grep -E '^SUMMARY' | tail -1)" >> "$log"
  printf '%s\n' "$out" | grep -E '^(VIOLATION|INCONCLUSIVE|BROKEN)' | head -5 >> "$log"
done
echo ALL-DONE >> "$log"
