#!/usr/bin/env python3
"""Generate /verif/MANIFEST.json from the table below (kept in one place so it stays valid)."""
import json, os, subprocess
ROOT = os.path.dirname(os.path.dirname(os.path.abspath(__file__)))

def hook_commits():
    out = subprocess.run(["git", "-C", "/repo", "log", "--format=%h %s"], capture_output=True, text=True).stdout
    return [l.split()[0] for l in out.splitlines() if l.split(" ", 1)[1].startswith("verif hook")]

# id -> (category, technique, level text, level note, design_ref)
CHECKS = {
 "C17": ("exploration", "reference-model monitor over exhaustive small-scope reader states + codec round trips (M-panic, M-alloc)",
         "Every packet of <=6 bytes over a 6-symbol boundary alphabet x every position x 53 operations x both byte orders is executed on the real Buffer and compared with an independent reference model (closure over positions covers operation sequences of any depth); random longer packets/sequences; VarInt round trip over 2^24 (quick) / all 2^32 (thorough) integers; all <=5-byte VarInt encodings over an 11-symbol alphabet against a reference decoder; string codec round trips and hostile length prefixes. Held = no disagreement, panic or out-of-packet position on what was executed.",
         "Reference model written from the property statement; std integer/UTF-8/UTF-16 conversions trusted; format-ambiguous inputs observe-only (listed in evidence assumptions).", "4 C17"),
 "C02": ("exploration", "differential monitor: independent A2S server model (encoder) vs the real decoder over the scripted transport; M-panic/M-step",
         "Random server states (all 32 EDF masks, 9 engine classes, both info layouts, The Ship) are encoded by a server model written from the specification as single/Source-split/GoldSrc-split/bzip2-split datagrams with 0-3 challenge rounds, served by a reactive scripted server, and valve::query / the per-game modules must return the expected response field for field. Held = equality on every execution (quick 1.2e5, thorough 1.5e6).",
         "Server model (DESIGN Appendix A.1) is the trusted reference; Q1/Q2 layout questions follow the implementation; bzip2 payloads from /usr/bin/bzip2.", "4 C02"),
 "C04": ("exploration", "differential monitor: independent GameSpy 1/2/3 server models (encoders) vs the real decoders over the scripted transport",
         "Random GameSpy 1 (multi-part, query ids), 2 (key/value block + player/team tables) and 3 (handshake, splitnum packets, field sections continued across packets) states are encoded by server models and query / query_vars must return every scalar, every player and team and exactly the unconsumed variables. Evidence counts the states with players whose players all came back (the silent 'Ok with an empty list' class).",
         "Implementation-defined formats: the models encode the layout the readers are meant to consume (DESIGN Appendix A.2-A.4); oracle is completeness.", "4 C04"),
 "C05": ("exploration", "differential monitor: independent Quake 1/2/3 status-reply model (encoder) vs the real decoder over the scripted transport",
         "Random status replies of the three formats (alternate key spellings, 0-64 player lines, quoted/unquoted names, optional address, trailing newline present or absent) must come back as the named variables, one player per line and the remaining variables untouched; evidence counts states with players whose players all came back.",
         "Implementation-defined format (DESIGN Appendix A.5); names with spaces or quotes are outside the asserted domain.", "4 C05"),
 "C06": ("exploration", "differential monitor: Unreal 2 server model vs the real decoder; exhaustive sweep over every string length byte x decoration x position",
         "Every length byte 0..=255 (both encodings) x {no escape, colour escape at start/middle/end, control codes} x 7 string positions is sent through the real query and must come back as the sent text with colour/control codes removed (8 960 cases, exhaustive), plus random states with repeated rule keys, mutators, bots and 1-6 datagrams per list.",
         "Implementation-defined format (DESIGN Appendix A.6); Latin-1 bytes 80-9f, truncated colour escapes and a UCS-2 first unit whose low byte is 01 are outside the asserted domain; the stray 01 byte of some games (documented: skipped, not counted) is sent in a quarter of the UCS-2 strings and at every second sweep position.", "4 C06"),
 "C03": ("exploration", "differential monitor (five Minecraft status models vs the real decoders) + connection-log monitor for the auto-detect order over all 32 variant subsets",
         "Java JSON, Bedrock pong and legacy 1.6/1.4/beta 1.8 states are encoded by independent models and decoded by the matching query; a reactive server speaking each of the 32 subsets of variants (hostile non-answers for the others: silence, empty close, garbage, truncation, refused connection) checks that protocol::query, games::minecraft::query and query_legacy return the first answering variant in documented order, labelled as such, AutoQuery iff none, and that the recorded connections/requests follow exactly that order.",
         "Models from wiki.vg / RakNet as reproduced in DESIGN Appendix A.7; description compared as JSON.", "4 C03"),
 "C07": ("exploration", "differential monitor: seven single-game reply models vs the real decoders (scripted transport; Eco over a real loopback HTTP server)",
         "FFOW, Savage 2, JC2-MP, Mindustry, The Ship, Battalion 1944 (all 64 subsets of its rule overrides) and Eco replies generated from random states must come back field for field; an Eco reply lacking a member must fail rather than be filled in.",
         "Implementation-defined formats (DESIGN Appendix A.8); Eco floats restricted to values the JSON library parses exactly.", "4 C07"),
 "C01": ("exploration", "M-panic + M-step monitors over hostile reply scripts (truncation sweep at every byte offset, byte-boundary sweep, structured random mutation) for every public entry point; sharded worker processes attribute aborts",
         "138 entry points (every protocol query, per-game wrappers, master-server service, generic dispatch for every GAMES entry) x settings are run against static hostile scripts derived from well-formed model exchanges: every reply of 276 fixed exchanges cut at every byte offset, every byte set to 8 boundary values, and 2.5e5 (quick) / 1.2e7 (thorough) randomly mutated exchanges. Refuting events: a panic (overflow traps on), a worker death, or more socket operations after the script fell silent than the protocol allows. The run fails if any entry point never consumed a reply; the outcome histogram per protocol family is in the evidence.",
         "Scripted transport instead of sockets (virtual timeouts); CPU-only hangs are seen only by the wall-clock watchdog; Eco/ureq not covered here.", "4 C01"),
 "C13": ("exploration", "M-alloc (counting global allocator, per-thread peak/largest request) + send/receive counters from the transport log over the C01 hostile workloads biased to extreme length/count fields",
         "Same entry points and mutators as C01, biased towards extreme values in length/count/size/index positions (binary extremes, extreme decimal strings, VarInt inflation, fragment-header values). Per query: peak live <= 64 MiB, largest single request <= 16 MiB, sends <= request units x (retries+1) + datagrams received. The evidence lists the maxima observed per protocol family with their witnesses.",
         "Allocation is measured on the query thread relative to the start of the query; requests above 1 GiB are refused by the harness allocator (the worker aborts and the supervisor attributes the case).", "4 C13"),
 "C08": ("exploration", "schedule enumeration: all n! arrival orders (n<=5, sampled at 6) and every single-fragment duplication, each executed on the real query and compared with in-order delivery",
         "For Valve Source/GoldSrc/bzip2 splits (info, players, rules), GameSpy 1 parts, GameSpy 3 packets and Unreal 2 rules/players lists with 2..6 fragments: every permutation (exhaustive for n<=5) must give the in-order result, every duplication Err or the in-order result. Unreal 2 is compared exactly and as multisets so that pure ordering differences (known findings: the protocol has no fragment index) are told apart from loss or duplication.",
         "The permuted section is the last one requested so that left-over datagrams cannot answer a later request; server models as in C02/C04/C06.", "4 C08"),
 "C09": ("exploration", "transport-log monitor: every connect/send event (destination, bytes) compared with reference request sequences produced by the server models; exhaustive stratified Valve challenge enumeration",
         "Valve challenge echo for all 12^4 words over a boundary byte alphabet at each of info/players/rules with 1-3 rounds (complete log must equal the reference built from what the server issued) plus random words; GameSpy 3 decimal challenges incl. 0/negatives; Java handshake bytes for host-name/protocol/port classes; and for every GAMES entry x port given/omitted x IPv4/IPv6 the destination of every connection and the full request sequence of a valid exchange.",
         "Reference requests from DESIGN Appendix A; Q3 (legacy 1.6 ping payload) asserted loosely, Q6 (Java ping payload) observe-only; default ports taken from the definitions table.", "4 C09"),
 "C10": ("fault_enumeration", "fault injection at the scripted transport: exhaustive per-attempt outcome vectors at every request position; attempts counted on the wire from the transport log",
         "For 25 retrying subjects (Valve info/players/rules x Enforce/Try x {silent attempt = no reply at all / challenge issued and then silence / first fragment of a split reply and then silence}, GameSpy 1/2/3, JC2-MP, Quake 1/2/3, Unreal 2 x Enforce/Try, Java, Bedrock, legacy x3, Mindustry, FFOW) and each request position, every outcome vector over {silent, send-fails, malformed, valid}^(r+2), r=0..2 (quick, 336 vectors) / 0..3 (thorough, 1 360 vectors) is injected; attempts, no-retry-after-malformed, result equality with the fault-free run and the failure class are checked from the log and the result.",
         "Attempts identified by the unit's initial request on the wire; one server state per subject and run.", "4 C10"),
 "C11": ("fault_enumeration", "exhaustive configuration x fault matrix on the scripted transport; request kinds taken from the transport log",
         "All 1 440 Valve cells (toggle pairs x section outcomes x app-id relation x check on/off) and 81 Unreal 2 cells (malformed = a datagram of another kind / the right header with an unparsable body / valid datagrams followed by such a one, stratified), each with 60 (quick) / 400 (thorough) random server states: Skip never requests, Try+failure leaves the rest equal to the fault-free response, Enforce+failure fails with the failure's class, BadGame exactly when the check applies and the id is not expected, and nothing is requested after BadGame.",
         "Failure kinds asserted by class (timeout vs non-timeout).", "4 C11"),
 "C14": ("exploration", "three-path differential monitor: transport logs and results of the generic, per-game-module and protocol-level call paths under the same scripted server, for every GAMES entry (table iterated at run time)",
         "Every GAMES entry x port given/omitted x 7 server behaviours (valid with main/dedicated/foreign app id, players silent, rules silent, malformed, silence) x 18 (quick) / 80 (thorough) states: identical connect/send logs and equal results (JSON; Valve projected to game::Response; Err by kind) across the three paths. Module functions are located through tables generated at build time from the repository's game_query_mod! lines; Eco is probed with real loopback listeners.",
         "Modules matched to definitions by pretty name; unmapped entries are inconclusive for that entry only.", "4 C14"),
 "C15": ("exploration", "reference-table monitor: accessor / as_json / as_original observations of directly generated response values against an accessor table written from the field documentation",
         "6e5 (quick) / 6e6 (thorough) values of the 15 response types and their player types, generated through their public fields from the models' states, are compared with DESIGN Appendix B.1: every accessor, as_json() field by field and through serde_json, players' name/score/as_json, and as_original() (variant, equality and pointer identity).",
         "Table written from the struct field docs; theship game_version accessor observe-only; Minetest/Epic types not built (tls feature).", "4 C15"),
 "C16": ("exploration", "transport-log monitor with a reference grammar parser + reference builder model; scripted page histories for paging; exhaustive short insertion sequences",
         "All 160 434 insertion sequences of length <=3 (both tiers) over 18 filter kinds x 3 groups: the recorded request is parsed by a reference parser of the Master Server Query Protocol grammar and must denote exactly the model's plain/NAND/NOR groups, region and seed; page histories of 1-6 pages x 1-230 entries with every kind of ending check the returned list, the seed of each follow-up request and that nothing is requested after the terminator.",
         "Filter keys/grammar from DESIGN Appendix A.9; values without backslash/NUL/comma; empty tag lists and mid-page terminators observe-only.", "4 C16"),
 "C18": ("exploration", "exhaustive configuration grid through every construction path, then M-panic over real loopback sockets, scripted queries of every protocol family, Eco over loopback HTTP and the CLI binary",
         "All 1 875 grid points ((read, write, connect) in {None, 0, 1 ns, 1 ms, u64::MAX s}^3 x 5 retry counts x {new, clap, serde}) + Default: a zero duration must be rejected by every path; accepted values are used to build real UDP/TCP sockets, to run one scripted query per protocol family against a valid, a malformed and a silent server (step-monitor cuts are counted, not judged), for Eco over HTTP and for gamedig_cli flag invocations; no panic, no exit status 101.",
         "clap expresses whole seconds only; CLI runs cut after 6 s are reported, not judged.", "4 C18"),
 "C12": ("fault_enumeration", "strace syscall-log monitor with an offline checker + wall-clock/err-class monitor against real loopback servers that fall silent / refuse + echo-peer integrity monitor + scripted-vs-real fidelity self-test",
         "Real sockets (hook compiled in, no transport installed). The strace log of a child doing new+send+receive is checked for SO_RCVTIMEO/SO_SNDTIMEO on every socket before its first I/O, a non-blocking connect polled with the configured timeout, unmodified wire bytes and the caller's IPv4/IPv6 destination; 13 protocol entry points + Eco run against loopback servers silent after 0-3 replies / never writing / refusing, for timeouts {50,150,400} ms x retries 0-2 x v4/v6 (error class; elapsed bound with 3 s slack, only a 3-fold breach counts); direct send/receive against an echo peer for boundary payload sizes and requested sizes; the same model server scripted and over loopback must give identical results.",
         "Wall-clock verdicts need three consecutive breaches; the syscall log is the load-independent part; ptrace must be permitted for strace.", "4 C12"),
 "C20": ("exploration", "M-panic + self-consistency oracle over names generated from the documented name grammar",
         "3e5 (quick) / 2e7 (thorough) names (words, non-ASCII words, dotted acronyms, roman numerals, numbers in every position, glued letter-digit words, hyphenation, year ranges, bracketed year/edition, ' - Mod' suffix) and lists of 1-4 games: no panic; the set of expected ids is independent of the wrong proposal, every reported expected id is accepted, candidates are accepted iff reported; the shipped GAMES table passes.",
         "Names with text directly after 'number-' (documented as unsupported) and leading numbers above 15 digits are observe-only.", "4 C20"),
 "C19": ("exploration", "subprocess monitor of the real gamedig_cli binary against loopback model servers: exit status, stdout/stderr, strict format checkers (JSON, XML well-formedness, BSON), faithfulness against the library's own answer",
         "gamedig_cli (rebuilt from the working tree) is run against real loopback servers speaking the reference encodings for 20 games of every protocol family x 6 formats x 2 modes with hostile server strings: exit 0, exactly one document, well-formed per a strict checker for the format, and equal to serde_json of as_json()/as_original() of the library's answer to an identically seeded server; 12 kinds of invalid invocation must exit non-zero with a message and no panic.",
         "XML faithfulness compared on the multiset of leaf texts; characters XML cannot carry (NUL, U+FFFE/FFFF) expected as U+FFFD; cases the library itself rejects are observe-only.", "4 C19"),
}
NOT_YET = {}
for i in range(1, 21):
    pid = "C%02d" % i
    if pid not in CHECKS:
        NOT_YET[pid] = "not claimed in this revision: the check for this property is still being built (see DESIGN.md section 4 for the plan)"

def main():
    checks = []
    for pid, (cat, tech, text, note, ref) in sorted(CHECKS.items()):
        checks.append({
            "property_id": pid,
            "quick_cmd": f"./check {pid} quick",
            "thorough_cmd": f"./check {pid} thorough",
            "evidence_file": f"/verif/evidence/{pid}.json",
            "replay_cmd_template": "./check replay {path}",
            "engine": "gdverif",
            "level_claimed": {"category": cat, "text": text, "design_ref": "DESIGN.md section " + ref},
            "level_note": note,
            "technique": tech,
        })
    m = {
        "version": 1,
        "setup_cmd": "./check build",
        "hooks": {
            "guard": "--cfg gamedig_verif (rustc cfg flag, passed through RUSTFLAGS)",
            "enable": "RUSTFLAGS=\"--cfg gamedig_verif\" cargo build (done by ./check for the harness crate, which depends on /repo/crates/lib by path)",
            "baseline_off_cmd": "cd /repo && cargo test --workspace --no-fail-fast --offline",
            "source_commits": hook_commits(),
            "add_only": True,
        },
        "engines": [{
            "name": "gdverif", "path": "/verif/harness",
            "serves_properties": sorted(CHECKS.keys()),
            "kind_free_text": "Rust harness: scripted in-process transport (event log), panic/step/allocation monitors, reference server models, sharded worker processes with journal-based abort attribution",
        }],
        "checks": checks,
        "not_applicable": [{"property_id": k, "reason": v} for k, v in sorted(NOT_YET.items())],
        "notes": "Runtime monitoring only. Every check rebuilds the harness (path dependency on /repo/crates/lib) before running. Known findings: /verif/known_findings.txt.",
    }
    json.dump(m, open(os.path.join(ROOT, "MANIFEST.json"), "w"), indent=1)
    print("wrote MANIFEST.json with", len(checks), "checks")

if __name__ == "__main__":
    main()
