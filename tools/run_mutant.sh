#!/bin/bash
# Apply a patch to /repo's working tree, run the given checks (quick), undo the patch.
#   tools/run_mutant.sh <patch.diff | revert:<commit>> <Cxx> [<Cxx> ...]
# Prints one line per check: <id> exit=<n> violations=<k> [first signatures]
set -u
VERIF_ROOT="$(cd "$(dirname "${BASH_SOURCE[0]}")/.." && pwd)"
P="$1"; shift
if ! git -C /repo diff --quiet; then echo "refusing: /repo has uncommitted changes" >&2; exit 2; fi
case "$P" in
  revert:*) git -C /repo revert --no-commit "${P#revert:}" >/dev/null 2>&1 || { echo "cannot revert ${P#revert:}" >&2; git -C /repo revert --abort 2>/dev/null; git -C /repo checkout -- . ; exit 2; } ;;
  *) git -C /repo apply "$P" || { echo "cannot apply $P" >&2; exit 2; } ;;
esac
for id in "$@"; do
  out="$("$VERIF_ROOT/check" "$id" quick 2>&1)"; rc=$?
  n=$(printf '%s\n' "$out" | grep -c '^VIOLATION')
  first=$(printf '%s\n' "$out" | grep '^VIOLATION' | head -2 | sed -e 's/.*sig=\[//' -e 's/\] count.*//' | tr '\n' ';')
  echo "$id exit=$rc violations=$n $first"
done
case "$P" in revert:*) git -C /repo revert --abort >/dev/null 2>&1; git -C /repo reset -q --hard HEAD ;; esac
git -C /repo checkout -- . 
git -C /repo status --short | grep -v '^??' | head -3
