#!/bin/bash
# tools/rerun_list.sh <glob>...  : rerun_seeds.sh for each glob in turn, collecting the verdicts in .work/rerun6.tsv
cd "$(dirname "${BASH_SOURCE[0]}")/.."
for pat in "$@"; do tools/rerun_seeds.sh "$pat" >/dev/null 2>&1; grep -v ALL-DONE .work/rerun_seeds.tsv >> .work/rerun6.tsv; done
echo ALL-DONE >> .work/rerun6.tsv
