#!/bin/bash
# For every `fixed:` line of known_findings.txt: revert that commit in /repo's working tree, run the
# property's quick check, expect a violation. Writes .work/regression_mutants.tsv
cd "$(dirname "${BASH_SOURCE[0]}")/.."
out=.work/regression_mutants.tsv; : > "$out"
grep '^fixed:' known_findings.txt | while read -r _ prop commit rest; do
  p=${prop#property=}
  # a fix found by one property's check is often also visible to others: run the owner plus C01 when the owner is a totality fix
  res=$(tools/run_mutant.sh "revert:$commit" "$p" 2>&1 | tr '\n' ' ')
  printf '%s\t%s\t%s\t%s\n' "$p" "$commit" "$res" "$rest" >> "$out"
done
echo done >> "$out"
