#!/bin/bash
# Confirm a seeded change in its scratch worktree, then run our checks against it in /repo.
#   tools/eval_seed.sh <worktree> <a|b> <Cxx> [<more checks>...]
# Writes /verif/seeded/<Cxx>-<a|b>/{patch.diff,demo.rs,notes.md,meta.json}
set -u
WT="$1"; V="$2"; ID="$3"; shift 2
VERIF_ROOT="$(cd "$(dirname "${BASH_SOURCE[0]}")/.." && pwd)"
P="$WT/SEED/$V.patch.diff"; D="$WT/SEED/$V.demo.rs"
[ -f "$P" ] || { echo "no patch $P"; exit 2; }
cd "$WT" || exit 2
git checkout -q -- . 2>/dev/null
DEMO_DIR="${DEMO_DIR:-crates/lib/tests}"; PKG="${PKG:-gamedig}"; FEAT="${FEATURES:+--features $FEATURES}"
mkdir -p "$DEMO_DIR"; rm -f crates/*/tests/seed_demo_*.rs
export CARGO_NET_OFFLINE=true
git apply "$P" || { echo "patch does not apply"; exit 2; }
# the existing suite with the change (no demo files present)
suite=$(cargo test --workspace --offline --no-fail-fast 2>&1 | grep -E "^test .* \.\.\. FAILED" | sort -u | tr '\n' ' ')
cp "$D" "$DEMO_DIR/seed_demo_$V.rs"
demo_with=$(cargo test -p $PKG --offline $FEAT --test "seed_demo_$V" 2>&1 | grep -E "^test result" | tail -1)
git apply -R "$P"
demo_without=$(cargo test -p $PKG --offline $FEAT --test "seed_demo_$V" 2>&1 | grep -E "^test result" | tail -1)
rm -f crates/*/tests/seed_demo_*.rs
echo "suite-failures-with-change: [$suite]"
echo "demo without change: $demo_without"
echo "demo with change:    $demo_with"
cd "$VERIF_ROOT"
res=$(tools/run_mutant.sh "$P" "$@" 2>&1)
echo "$res"
dir="$VERIF_ROOT/${SEED_DIR:-seeded}/$ID-$V"; mkdir -p "$dir"
cp "$P" "$dir/patch.diff"; cp "$D" "$dir/demo.rs"; cp "$WT/SEED/notes.md" "$dir/notes.md"
python3 - "$dir" "$ID" "$V" "$demo_without" "$demo_with" "$suite" "$res" <<'PY'
import json,sys
d,idp,v,dw,dc,suite,res=sys.argv[1:8]
meta={"property":idp,"variant":v,"origin":"sub-agent given only the property text and a scratch worktree","demo_placement":"%s/seed_demo_%s.rs"%(__import__("os").environ.get("DEMO_DIR","crates/lib/tests"),v),
 "confirmed":{"existing_suite_failures_with_change":suite.strip(),"demo_without_change":dw,"demo_with_change":dc},
 "checks_run_against_it":[l for l in res.splitlines() if l.startswith('C')],
 "detected_by":[l.split()[0] for l in res.splitlines() if l.startswith('C') and 'violations=0' not in l]}
json.dump(meta,open(d+'/meta.json','w'),indent=1)
print(json.dumps(meta["detected_by"]))
PY
