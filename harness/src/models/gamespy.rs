//! Reference models of GameSpy 1/2/3 servers (DESIGN.md Appendix A.2–A.4).

use crate::core::net::{Conn, Server};
use crate::core::rng::Rng;
use gamedig::protocols::gamespy::{one, three, two};
use std::collections::HashMap;

const GS_FORBID: &[char] = &['\\', '\u{0}'];

fn bool_text(rng: &mut Rng, b: bool) -> String {
    let s = match (b, rng.below(4)) {
        (true, 0) => "1",
        (true, 1) => "true",
        (true, 2) => "True",
        (true, _) => "TRUE",
        (false, 0) => "0",
        (false, 1) => "false",
        (false, 2) => "False",
        (false, _) => "FALSE",
    };
    s.to_string()
}

const CONSUMED: &[&str] = &[
    "hostname", "mapname", "maptitle", "AdminEMail", "AdminName", "admin", "password", "gametype", "gamever", "maxplayers", "minplayers", "numplayers", "tournament", "final", "queryid", "splitnum", "version", "description",
];
const PLAYER_KINDS: &[&str] = &["team", "player", "playername", "ping", "face", "skin", "mesh", "frags", "ngsecret", "deaths", "health", "score", "pid", "skill"];

pub fn extras(rng: &mut Rng, n: usize, forbid: &[char]) -> Vec<(String, String)> {
    let mut out: Vec<(String, String)> = Vec::new();
    while out.len() < n {
        let k = match rng.below(5) {
            // a key with one character from the edges of what other notations accept in a name
            4 => format!("{}{}{}", rng.ident(4), rng.pick(&['\u{37e}', '\u{d7}', '\u{f7}', '\u{2000}', '\u{2041}', '\u{2190}', '\u{3000}', '\u{fdd0}', '\u{b7}', '\u{300}', ';', '!', '$', '%', '(', '+', ',', '/', '=', '?', '@', '[', '^', '`', '{', '|', '~']), rng.ident(3)),
            0 => rng.ident(12),
            1 => format!("{}_{}", rng.ident(6), rng.below(100)),
            2 => format!("sv_{}", rng.ident(8)),
            _ => rng.text1(12, forbid),
        };
        let kind = k.split('_').next().unwrap_or("");
        if crate::core::rng::KEYWORDS.contains(&k.as_str()) || CONSUMED.contains(&k.as_str()) || PLAYER_KINDS.contains(&kind) || out.iter().any(|(x, _)| *x == k) || k.bytes().next().map(|b| b < 3).unwrap_or(true) {
            continue;
        }
        let v = rng.text(24, forbid);
        out.push((k, v));
    }
    out
}

// ------------------------------------------------------------------------------------------------
// GameSpy 1

#[derive(Debug, Clone)]
pub struct P1 {
    pub name: String,
    pub use_playername: bool,
    pub frags: i32,
    pub ping: u16,
    pub team: Option<u8>,
    pub face: Option<String>,
    pub skin: Option<String>,
    pub mesh: Option<String>,
    pub deaths: Option<u32>,
    pub health: Option<u32>,
    pub secret: Option<(bool, String)>,
}

#[derive(Debug, Clone)]
pub struct Gs1State {
    pub hostname: String,
    pub mapname: String,
    pub gametype: String,
    pub gamever: String,
    pub maxplayers: u32,
    pub minplayers: Option<u8>,
    pub password: (bool, String),
    pub maptitle: Option<String>,
    pub admin_email: Option<String>,
    /// (key, value): key is "AdminName" or "admin"
    pub admin_name: Option<(String, String)>,
    /// an `admin` variable sent in addition to `AdminName` (then AdminName is decoded and admin is just another variable)
    pub admin_also: Option<String>,
    pub tournament: Option<(bool, String)>,
    pub extras: Vec<(String, String)>,
    pub players: Vec<P1>,
    pub query_id: u32,
}

impl Gs1State {
    pub fn gen(rng: &mut Rng, n_players: usize, n_extras: usize) -> Self {
        let pw = rng.bool();
        let tour = rng.bool();
        let opt_mask = rng.below(128);
        Self {
            hostname: rng.text(40, GS_FORBID),
            mapname: rng.text(20, GS_FORBID),
            gametype: rng.text(12, GS_FORBID),
            gamever: rng.text(8, GS_FORBID),
            maxplayers: rng.b_u32(),
            minplayers: rng.bool().then(|| rng.b_u8()),
            password: (pw, bool_text(rng, pw)),
            maptitle: rng.bool().then(|| rng.text(20, GS_FORBID)),
            admin_email: rng.bool().then(|| rng.text(20, GS_FORBID)),
            admin_name: rng.bool().then(|| ((if rng.bool() { "AdminName" } else { "admin" }).to_string(), rng.text(16, GS_FORBID))),
            admin_also: None,
            tournament: rng.bool().then(|| (tour, bool_text(rng, tour))).filter(|(_, t)| t != "1" && t != "0"),
            extras: {
                let mut e = extras(rng, n_extras, GS_FORBID);
                // variables numbered like per-player fields but of no per-player kind are ordinary variables
                if rng.chance(1, 4) {
                    let k = format!("{}_{}", rng.pick(&["score", "kills", "pid", "skill", "teamscore", "bot", "Player", "FRAGS"]), if rng.bool() { rng.below(4) as usize } else { n_players + rng.below(3) as usize });
                    if !e.iter().any(|(x, _)| *x == k) {
                        e.push((k, rng.text(8, GS_FORBID)));
                    }
                }
                e
            },
            players: (0 .. n_players)
                .map(|_| {
                    let sec = rng.bool();
                    P1 {
                        name: rng.text(20, GS_FORBID),
                        use_playername: rng.chance(1, 3),
                        frags: rng.b_i32(),
                        ping: rng.b_u16(),
                        team: (opt_mask & 1 != 0).then(|| rng.b_u8()),
                        face: (opt_mask & 2 != 0).then(|| rng.text(10, GS_FORBID)),
                        skin: (opt_mask & 4 != 0).then(|| rng.text(10, GS_FORBID)),
                        mesh: (opt_mask & 8 != 0).then(|| rng.text(10, GS_FORBID)),
                        deaths: (opt_mask & 16 != 0).then(|| rng.b_u32()),
                        health: (opt_mask & 32 != 0).then(|| rng.b_u32()),
                        secret: (opt_mask & 64 != 0).then(|| {
                            let t = match (sec, rng.below(3)) {
                                (true, 0) => "true",
                                (true, 1) => "True",
                                (true, _) => "TRUE",
                                (false, 0) => "false",
                                (false, 1) => "False",
                                (false, _) => "FALSE",
                            };
                            (sec, t.to_string())
                        }),
                    }
                })
                .collect(),
            query_id: rng.below(100_000) as u32,
        }
        .with_admin_also(rng)
    }

    fn with_admin_also(mut self, rng: &mut Rng) -> Self {
        if matches!(&self.admin_name, Some((k, _)) if k == "AdminName") && rng.chance(1, 4) {
            self.admin_also = Some(rng.text(12, GS_FORBID));
        }
        self
    }

    pub fn server_pairs(&self) -> Vec<(String, String)> {
        let mut kv: Vec<(String, String)> = vec![
            ("hostname".into(), self.hostname.clone()),
            ("mapname".into(), self.mapname.clone()),
            ("gametype".into(), self.gametype.clone()),
            ("gamever".into(), self.gamever.clone()),
            ("maxplayers".into(), self.maxplayers.to_string()),
            ("password".into(), self.password.1.clone()),
        ];
        if let Some(m) = self.minplayers {
            kv.push(("minplayers".into(), m.to_string()));
        }
        if let Some(m) = &self.maptitle {
            kv.push(("maptitle".into(), m.clone()));
        }
        if let Some(m) = &self.admin_email {
            kv.push(("AdminEMail".into(), m.clone()));
        }
        if let Some((k, v)) = &self.admin_name {
            kv.push((k.clone(), v.clone()));
        }
        if let Some(v) = &self.admin_also {
            kv.push(("admin".into(), v.clone()));
        }
        if let Some((_, t)) = &self.tournament {
            kv.push(("tournament".into(), t.clone()));
        }
        kv.extend(self.extras.iter().cloned());
        kv
    }

    pub fn player_pairs(&self) -> Vec<(String, String)> {
        let mut kv = Vec::new();
        for (i, p) in self.players.iter().enumerate() {
            kv.push((format!("{}_{}", if p.use_playername { "playername" } else { "player" }, i), p.name.clone()));
            kv.push((format!("frags_{i}"), p.frags.to_string()));
            kv.push((format!("ping_{i}"), p.ping.to_string()));
            if let Some(t) = p.team {
                kv.push((format!("team_{i}"), t.to_string()));
            }
            if let Some(t) = &p.face {
                kv.push((format!("face_{i}"), t.clone()));
            }
            if let Some(t) = &p.skin {
                kv.push((format!("skin_{i}"), t.clone()));
            }
            if let Some(t) = &p.mesh {
                kv.push((format!("mesh_{i}"), t.clone()));
            }
            if let Some(t) = p.deaths {
                kv.push((format!("deaths_{i}"), t.to_string()));
            }
            if let Some(t) = p.health {
                kv.push((format!("health_{i}"), t.to_string()));
            }
            if let Some((_, t)) = &p.secret {
                kv.push((format!("ngsecret_{i}"), t.clone()));
            }
        }
        kv
    }

    /// datagrams in part order (part numbers start at 1; the last one carries \final\)
    pub fn encode(&self, rng: &mut Rng, nparts: usize) -> Vec<Vec<u8>> {
        let mut kv = self.server_pairs();
        kv.extend(self.player_pairs());
        if rng.bool() {
            rng.shuffle(&mut kv);
        }
        // pack the pairs into parts in order; every datagram stays below the 1024 bytes the client reads
        let total: usize = kv.iter().map(|(k, v)| k.len() + v.len() + 2).sum();
        let limit = (total / nparts.max(1) + 60).min(960).max(80);
        let mut parts: Vec<Vec<(String, String)>> = vec![Vec::new()];
        let mut used = 0usize;
        for p in kv.into_iter() {
            let l = p.0.len() + p.1.len() + 2;
            if used + l > limit && !parts.last().unwrap().is_empty() {
                parts.push(Vec::new());
                used = 0;
            }
            used += l;
            parts.last_mut().unwrap().push(p);
        }
        let nparts = parts.len();
        let mut out = Vec::new();
        for (i, part) in parts.iter().enumerate() {
            let mut s = String::new();
            for (k, v) in part {
                s.push('\\');
                s.push_str(k);
                s.push('\\');
                s.push_str(v);
            }
            let last = i + 1 == nparts;
            let qid = format!("\\queryid\\{}.{}", self.query_id, i + 1);
            if last {
                if rng.bool() {
                    s.push_str("\\final\\");
                    s.push_str(&qid);
                } else {
                    s.push_str(&qid);
                    s.push_str("\\final\\");
                }
            } else {
                s.push_str(&qid);
            }
            out.push(s.into_bytes());
        }
        out
    }

    pub fn expected_vars(&self) -> HashMap<String, String> {
        let mut m: HashMap<String, String> = self.server_pairs().into_iter().collect();
        m.extend(self.player_pairs());
        m
    }

    pub fn expected(&self) -> one::Response {
        let mut consumed = vec!["hostname", "mapname", "maptitle", "AdminEMail", "AdminName", "password", "gametype", "gamever", "maxplayers", "minplayers", "tournament"];
        if self.admin_also.is_none() {
            consumed.push("admin");
        }
        one::Response {
            name: self.hostname.clone(),
            map: self.mapname.clone(),
            map_title: self.maptitle.clone(),
            admin_contact: self.admin_email.clone(),
            admin_name: self.admin_name.as_ref().map(|(_, v)| v.clone()),
            has_password: self.password.0,
            game_mode: self.gametype.clone(),
            game_version: self.gamever.clone(),
            players_maximum: self.maxplayers,
            players_online: self.players.len() as u32,
            players_minimum: self.minplayers,
            players: self
                .players
                .iter()
                .map(|p| one::Player {
                    name: p.name.clone(),
                    team: p.team,
                    ping: p.ping,
                    face: p.face.clone(),
                    skin: p.skin.clone(),
                    mesh: p.mesh.clone(),
                    score: p.frags,
                    deaths: p.deaths,
                    health: p.health,
                    secret: p.secret.as_ref().map(|(b, _)| *b),
                })
                .collect(),
            tournament: self.tournament.as_ref().map(|(b, _)| *b).unwrap_or(true),
            unused_entries: self.server_pairs().into_iter().filter(|(k, _)| !consumed.contains(&k.as_str())).collect(),
        }
    }
}

pub const GS1_REQUEST: &[u8] = b"\\status\\xserverquery";

/// replies with `dgrams` to every well-formed request
pub struct OneShotUdp {
    pub request: Vec<u8>,
    pub dgrams: Vec<Vec<u8>>,
    pub requests_seen: usize,
    pub bad_requests: Vec<Vec<u8>>,
}

impl OneShotUdp {
    pub fn new(request: &[u8], dgrams: Vec<Vec<u8>>) -> Self { Self { request: request.to_vec(), dgrams, requests_seen: 0, bad_requests: vec![] } }
}

impl Server for OneShotUdp {
    fn on_send(&mut self, conn: &mut Conn, data: &[u8]) -> bool {
        if data == self.request.as_slice() {
            self.requests_seen += 1;
            conn.reply_all(self.dgrams.iter().cloned());
        } else {
            self.bad_requests.push(data.to_vec());
        }
        true
    }
}

// ------------------------------------------------------------------------------------------------
// GameSpy 2

const GS2_FORBID: &[char] = &['\u{0}'];

#[derive(Debug, Clone)]
pub struct Gs2State {
    pub hostname: String,
    pub mapname: String,
    pub password: bool,
    pub maxplayers: u32,
    pub numplayers: Option<u32>,
    pub minplayers: Option<u32>,
    pub extras: Vec<(String, String)>,
    pub players: Vec<two::Player>,
    pub teams: Vec<two::Team>,
}

pub const GS2_REQUEST: &[u8] = &[0xFE, 0xFD, 0x00, 0x00, 0x00, 0x00, 0x01, 0xFF, 0xFF, 0xFF];

impl Gs2State {
    pub fn gen(rng: &mut Rng, n_players: usize, n_teams: usize, n_extras: usize) -> Self {
        Self {
            hostname: rng.text(40, GS2_FORBID),
            mapname: rng.text(20, GS2_FORBID),
            password: rng.bool(),
            maxplayers: rng.b_u32(),
            numplayers: rng.bool().then(|| if rng.bool() { n_players as u32 } else { rng.below(100) as u32 }),
            minplayers: rng.bool().then(|| rng.b_u32()),
            extras: extras(rng, n_extras, GS2_FORBID),
            players: (0 .. n_players).map(|_| two::Player { name: rng.text(20, GS2_FORBID), score: rng.b_u16(), ping: rng.b_u16(), team_index: rng.b_u16() }).collect(),
            teams: (0 .. n_teams).map(|_| two::Team { name: rng.text(12, GS2_FORBID), score: rng.b_u16() }).collect(),
        }
    }

    pub fn pairs(&self) -> Vec<(String, String)> {
        let mut kv: Vec<(String, String)> = vec![
            ("hostname".into(), self.hostname.clone()),
            ("mapname".into(), self.mapname.clone()),
            ("password".into(), (if self.password { "1" } else { "0" }).to_string()),
            ("maxplayers".into(), self.maxplayers.to_string()),
        ];
        if let Some(n) = self.numplayers {
            kv.push(("numplayers".into(), n.to_string()));
        }
        if let Some(n) = self.minplayers {
            kv.push(("minplayers".into(), n.to_string()));
        }
        kv.extend(self.extras.iter().cloned());
        kv
    }

    pub fn encode(&self, rng: &mut Rng) -> Vec<u8> {
        let mut o = vec![0x00, 0x00, 0x00, 0x00, 0x01];
        let mut kv = self.pairs();
        if rng.bool() {
            rng.shuffle(&mut kv);
        }
        for (k, v) in kv {
            o.extend(k.bytes());
            o.push(0);
            o.extend(v.bytes());
            o.push(0);
        }
        // end of the key/value block (empty key); its terminator doubles as the table's leading 00
        o.push(0);
        o.push(0);
        o.push(self.players.len() as u8);
        if !self.players.is_empty() {
            for c in ["player_", "score_", "ping_", "team_"] {
                o.extend(c.bytes());
                o.push(0);
            }
            o.push(0);
            for p in &self.players {
                for v in [p.name.clone(), p.score.to_string(), p.ping.to_string(), p.team_index.to_string()] {
                    o.extend(v.bytes());
                    o.push(0);
                }
            }
        }
        o.push(0);
        o.push(self.teams.len() as u8);
        if !self.teams.is_empty() {
            for c in ["team_t", "score_t"] {
                o.extend(c.bytes());
                o.push(0);
            }
            o.push(0);
            for t in &self.teams {
                for v in [t.name.clone(), t.score.to_string()] {
                    o.extend(v.bytes());
                    o.push(0);
                }
            }
        }
        o
    }

    pub fn expected(&self) -> two::Response {
        let consumed = ["hostname", "mapname", "password", "maxplayers", "numplayers", "minplayers"];
        let listed = self.players.len() as u32;
        two::Response {
            name: self.hostname.clone(),
            map: self.mapname.clone(),
            has_password: self.password,
            teams: self.teams.clone(),
            players_maximum: self.maxplayers,
            players_online: self.numplayers.map(|n| n.max(listed)).unwrap_or(listed),
            players_minimum: self.minplayers,
            players: self.players.clone(),
            unused_entries: self.pairs().into_iter().filter(|(k, _)| !consumed.contains(&k.as_str())).collect(),
        }
    }
}

// ------------------------------------------------------------------------------------------------
// GameSpy 3

#[derive(Debug, Clone)]
pub struct Gs3State {
    pub hostname: String,
    pub mapname: String,
    pub gametype: String,
    pub gamever: String,
    pub maxplayers: u32,
    pub minplayers: Option<u8>,
    pub numplayers: Option<u32>,
    pub password: (bool, String),
    pub tournament: Option<(bool, String)>,
    pub extras: Vec<(String, String)>,
    pub players: Vec<three::Player>,
    pub pids: Option<Vec<u32>>,
    pub teams: Vec<three::Team>,
}

/// non-empty text whose first byte is >= 3 (a section marker could not be told apart otherwise)
fn gs3_text(rng: &mut Rng, max: usize) -> String {
    loop {
        let s = rng.text1(max, GS2_FORBID);
        if s.as_bytes()[0] >= 3 {
            return s;
        }
    }
}

impl Gs3State {
    pub fn gen(rng: &mut Rng, n_players: usize, n_teams: usize, n_extras: usize) -> Self {
        let pw = rng.bool();
        let tour = rng.bool();
        Self {
            hostname: rng.text(40, GS2_FORBID),
            mapname: rng.text(20, GS2_FORBID),
            gametype: rng.text(12, GS2_FORBID),
            gamever: rng.text(8, GS2_FORBID),
            maxplayers: rng.b_u32(),
            minplayers: rng.bool().then(|| rng.b_u8()),
            numplayers: rng.bool().then(|| if rng.bool() { n_players as u32 } else { rng.below(100) as u32 }),
            password: (pw, bool_text(rng, pw)),
            tournament: rng.bool().then(|| (tour, bool_text(rng, tour))).filter(|(_, t)| t != "1" && t != "0"),
            extras: extras(rng, n_extras, GS2_FORBID),
            players: (0 .. n_players).map(|_| three::Player { name: gs3_text(rng, 20), score: rng.b_i32(), ping: rng.b_u16(), team: rng.b_u8(), deaths: rng.b_u32(), skill: rng.b_u32() }).collect(),
            pids: rng.bool().then(|| (0 .. n_players).map(|_| rng.u32()).collect()),
            teams: (0 .. n_teams).map(|_| three::Team { name: gs3_text(rng, 12), score: rng.b_i32() }).collect(),
        }
    }

    pub fn pairs(&self) -> Vec<(String, String)> {
        let mut kv: Vec<(String, String)> = vec![
            ("hostname".into(), self.hostname.clone()),
            ("mapname".into(), self.mapname.clone()),
            ("gametype".into(), self.gametype.clone()),
            ("gamever".into(), self.gamever.clone()),
            ("maxplayers".into(), self.maxplayers.to_string()),
            ("password".into(), self.password.1.clone()),
        ];
        if let Some(n) = self.numplayers {
            kv.push(("numplayers".into(), n.to_string()));
        }
        if let Some(n) = self.minplayers {
            kv.push(("minplayers".into(), n.to_string()));
        }
        if let Some((_, t)) = &self.tournament {
            kv.push(("tournament".into(), t.clone()));
        }
        kv.extend(self.extras.iter().cloned());
        kv
    }

    /// (section marker, field name, values)
    pub fn fields(&self) -> Vec<(u8, &'static str, Vec<String>)> {
        let mut f: Vec<(u8, &'static str, Vec<String>)> = Vec::new();
        if !self.players.is_empty() {
            f.push((1, "player_", self.players.iter().map(|p| p.name.clone()).collect()));
            f.push((1, "score_", self.players.iter().map(|p| p.score.to_string()).collect()));
            f.push((1, "ping_", self.players.iter().map(|p| p.ping.to_string()).collect()));
            f.push((1, "team_", self.players.iter().map(|p| p.team.to_string()).collect()));
            f.push((1, "deaths_", self.players.iter().map(|p| p.deaths.to_string()).collect()));
            if let Some(pids) = &self.pids {
                f.push((1, "pid_", pids.iter().map(|p| p.to_string()).collect()));
            }
            f.push((1, "skill_", self.players.iter().map(|p| p.skill.to_string()).collect()));
        }
        if !self.teams.is_empty() {
            f.push((2, "team_t", self.teams.iter().map(|p| p.name.clone()).collect()));
            f.push((2, "score_t", self.teams.iter().map(|p| p.score.to_string()).collect()));
        }
        f
    }

    /// payloads of the n packets (without framing); values are cut between items
    pub fn payloads(&self, rng: &mut Rng, n_packets: usize) -> Vec<Vec<u8>> {
        let mut first = Vec::new();
        let mut kv = self.pairs();
        if rng.bool() {
            rng.shuffle(&mut kv);
        }
        for (k, v) in kv {
            first.extend(k.bytes());
            first.push(0);
            first.extend(v.bytes());
            first.push(0);
        }
        first.push(0); // empty key ends the block
        // the item stream: (section, field, index, value)
        let fields = self.fields();
        let total_items: usize = fields.iter().map(|f| f.2.len()).sum();
        let n_packets = n_packets.max(1).min(total_items.max(1));
        // choose n_packets-1 cut positions in the item stream (cut before item c)
        let mut cuts: Vec<usize> = Vec::new();
        while cuts.len() + 1 < n_packets {
            let c = rng.usize(1, total_items - 1);
            if !cuts.contains(&c) {
                cuts.push(c);
            }
        }
        cuts.sort();
        let mut packets: Vec<Vec<u8>> = vec![first];
        let mut item_no = 0usize;
        let mut cur_section = 0u8;
        for (sec, name, vals) in &fields {
            let mut open = false;
            for (i, v) in vals.iter().enumerate() {
                if cuts.contains(&item_no) {
                    if open {
                        packets.last_mut().unwrap().push(0); // close the field in this packet
                    }
                    packets.push(Vec::new());
                    open = false;
                    cur_section = 0;
                }
                let p = packets.last_mut().unwrap();
                if !open {
                    if cur_section != *sec {
                        if cur_section != 0 {
                            p.push(0);
                        }
                        p.push(*sec);
                        cur_section = *sec;
                    }
                    p.extend(name.bytes());
                    p.push(0);
                    p.push(i as u8); // start offset
                    open = true;
                }
                p.extend(v.bytes());
                p.push(0);
                item_no += 1;
            }
            if open {
                packets.last_mut().unwrap().push(0);
            }
        }
        packets
    }

    pub fn frame(payloads: &[Vec<u8>]) -> Vec<Vec<u8>> {
        let n = payloads.len();
        payloads
            .iter()
            .enumerate()
            .map(|(i, p)| {
                let mut d = vec![0x00, 0x00, 0x00, 0x00, 0x01];
                d.extend(b"splitnum\0");
                d.push(i as u8 | if i + 1 == n { 0x80 } else { 0 });
                d.push(n as u8);
                d.extend(p);
                d
            })
            .collect()
    }

    pub fn expected(&self) -> three::Response {
        let consumed = ["hostname", "mapname", "gametype", "gamever", "maxplayers", "password", "numplayers", "minplayers", "tournament"];
        let listed = self.players.len() as u32;
        three::Response {
            name: self.hostname.clone(),
            map: self.mapname.clone(),
            has_password: self.password.0,
            game_mode: self.gametype.clone(),
            game_version: self.gamever.clone(),
            players_maximum: self.maxplayers,
            players_online: self.numplayers.map(|n| n.max(listed)).unwrap_or(listed),
            players_minimum: self.minplayers,
            players: self.players.clone(),
            teams: self.teams.clone(),
            tournament: self.tournament.as_ref().map(|(b, _)| *b).unwrap_or(true),
            unused_entries: self.pairs().into_iter().filter(|(k, _)| !consumed.contains(&k.as_str())).collect(),
        }
    }
}

/// GameSpy 3 reactive server: handshake (challenge) then data
pub struct Gs3Server {
    pub challenge_text: String,
    pub dgrams: Vec<Vec<u8>>,
    pub payload: [u8; 4],
    pub handshakes: usize,
    pub data_requests: Vec<Vec<u8>>,
    pub bad_requests: Vec<Vec<u8>>,
}

impl Gs3Server {
    pub fn new(challenge_text: &str, dgrams: Vec<Vec<u8>>) -> Self { Self { challenge_text: challenge_text.to_string(), dgrams, payload: [0xff, 0xff, 0xff, 0x01], handshakes: 0, data_requests: vec![], bad_requests: vec![] } }

    /// what the data request must look like for this challenge
    pub fn expected_data_request(&self) -> Option<Vec<u8>> {
        let c: i32 = self.challenge_text.trim_end_matches('\0').parse().ok()?;
        let mut r = vec![0xfe, 0xfd, 0x00, 0x00, 0x00, 0x00, 0x01];
        r.extend(c.to_be_bytes());
        r.extend(self.payload);
        Some(r)
    }
}

impl Server for Gs3Server {
    fn on_send(&mut self, conn: &mut Conn, data: &[u8]) -> bool {
        if data == [0xfe, 0xfd, 0x09, 0x00, 0x00, 0x00, 0x01] {
            self.handshakes += 1;
            let mut d = vec![0x09, 0x00, 0x00, 0x00, 0x01];
            d.extend(self.challenge_text.bytes());
            d.push(0);
            conn.reply(d);
        } else if data.len() >= 7 && data[.. 3] == [0xfe, 0xfd, 0x00] {
            self.data_requests.push(data.to_vec());
            // like a real server, answer only a data request that carries the challenge just issued (a challenge text
            // that is not a non-zero 32-bit number has no defined echo: answered whatever is sent)
            let zero = self.challenge_text.trim_end_matches('\0').parse::<i32>().map(|c| c == 0).unwrap_or(true);
            match self.expected_data_request() {
                Some(e) if !zero && (data.len() < 11 || data[.. 11] != e[.. 11]) => {}
                _ => conn.reply_all(self.dgrams.iter().cloned()),
            }
        } else {
            self.bad_requests.push(data.to_vec());
        }
        true
    }
}
