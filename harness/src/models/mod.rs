pub mod gamespy;
pub mod master;
pub mod minecraft;
pub mod misc;
pub mod quake;
pub mod unreal2;
pub mod valve;
pub mod game_tables {
    include!(concat!(env!("OUT_DIR"), "/game_tables.rs"));
}
