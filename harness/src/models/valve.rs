//! Reference model of a Valve A2S server (DESIGN.md Appendix A.1), written from the Server Queries
//! specification, not from the Rust parser.

use crate::core::net::{Conn, Server};
use crate::core::rng::Rng;
use gamedig::protocols::valve::{self, Engine, Environment, ExtraData, ModData, Response, ServerInfo, ServerPlayer, TheShip};
use std::collections::HashMap;

#[derive(Debug, Clone)]
pub struct Player {
    pub index: u8,
    pub name: String,
    pub score: i32,
    pub duration_bits: u32,
    pub deaths: u32,
    pub money: u32,
}

#[derive(Debug, Clone, Copy, PartialEq, Eq)]
pub enum Layout {
    /// 'I' (0x49) reply
    Source,
    /// 'm' (0x6D) obsolete GoldSource reply
    ObsoleteGold,
}

#[derive(Debug, Clone)]
pub struct State {
    pub layout: Layout,
    pub ship: bool,
    pub protocol: u8,
    pub address: String,
    pub name: String,
    pub map: String,
    pub folder: String,
    pub game: String,
    pub appid16: u16,
    pub players_online: u8,
    pub players_max: u8,
    pub bots: u8,
    pub server_type: u8,
    pub environment: u8,
    pub visibility: u8,
    pub vac: u8,
    pub ship_mode: u8,
    pub ship_witnesses: u8,
    pub ship_duration: u8,
    pub version: String,
    /// None = no EDF byte at all
    pub edf: Option<u8>,
    pub port: u16,
    pub steam_id: u64,
    pub tv_port: u16,
    pub tv_name: String,
    pub keywords: String,
    pub game_id: u64,
    // obsolete layout
    pub is_mod: u8,
    pub mod_link: String,
    pub mod_download: String,
    pub mod_version: u32,
    pub mod_size: u32,
    pub mod_mp_only: u8,
    pub mod_own_dll: u8,
    pub players: Vec<Player>,
    pub rules: Vec<(String, String)>,
}

pub fn sz(out: &mut Vec<u8>, s: &str) {
    out.extend_from_slice(s.as_bytes());
    out.push(0);
}

const NO_NUL: &[char] = &[];

impl State {
    /// `appid_hint`: the app id the server should report (so that app-id checks pass or fail on purpose)
    pub fn gen(rng: &mut Rng, engine: &Engine, appid_hint: u32, n_players: usize, n_rules: usize) -> Self {
        let layout = match engine {
            Engine::GoldSrc(true) => Layout::ObsoleteGold,
            _ => Layout::Source,
        };
        let ship = *engine == Engine::new(2400);
        let str_len = *rng.pick(&[0usize, 1, 8, 24, 64]);
        let edf: Option<u8> = if rng.chance(1, 12) {
            None
        } else {
            // all 32 combinations of the five defined bits; undefined bits stay clear
            let m = rng.below(32) as u8;
            let mut b = 0u8;
            if m & 1 != 0 {
                b |= 0x80;
            }
            if m & 2 != 0 {
                b |= 0x10;
            }
            if m & 4 != 0 {
                b |= 0x40;
            }
            if m & 8 != 0 {
                b |= 0x20;
            }
            if m & 16 != 0 {
                b |= 0x01;
            }
            Some(b)
        };
        // an app id that does not fit the 16 bit field can only be reported through the game id
        let edf = if appid_hint > 0xffff { Some(edf.unwrap_or(0) | 0x01) } else { edf };
        // the game id's low 24 bits are the app id; when the flag is set they override the 16 bit field
        let game_id = ((rng.b_u64() >> 24) << 24) | (appid_hint as u64 & 0xff_ffff);
        let mut rules = Vec::new();
        let mut seen = std::collections::HashSet::new();
        while rules.len() < n_rules {
            // a rule name may be any NUL-terminated string, the empty one included
            let k = if n_rules > 300 { format!("r{}_{}", rules.len(), rng.ident(6)) } else if rng.chance(1, 12) { String::new() } else { rng.text1(20, NO_NUL) };
            if k == "Test" || !seen.insert(k.clone()) {
                continue;
            }
            let v = if n_rules > 300 { rng.ident(8) } else { rng.text(30, NO_NUL) };
            rules.push((k, v));
        }
        let players = (0 .. n_players)
            .map(|i| Player {
                index: if rng.chance(3, 4) { i as u8 } else { rng.b_u8() },
                name: rng.text(if n_players > 64 { 6 } else { 32 }, NO_NUL),
                score: rng.b_i32(),
                duration_bits: match rng.below(8) {
                    0 => 0,
                    1 => f32::NAN.to_bits(),
                    2 => f32::INFINITY.to_bits(),
                    3 => 0x7fc0_1234,
                    4 => (-0.0f32).to_bits(),
                    _ => ((rng.below(100_000) as f32) / 7.0).to_bits(),
                },
                deaths: rng.b_u32(),
                money: rng.b_u32(),
            })
            .collect();
        Self {
            layout,
            ship,
            protocol: if *engine == Engine::new(240) && rng.chance(1, 2) { 7 } else { rng.b_u8() },
            address: format!("{}.{}.{}.{}:{}", rng.u8(), rng.u8(), rng.u8(), rng.u8(), rng.below(65536)),
            name: rng.text(str_len, NO_NUL),
            map: rng.text(str_len, NO_NUL),
            folder: rng.text(str_len.min(24), NO_NUL),
            game: rng.text(str_len, NO_NUL),
            appid16: if edf.map(|e| e & 1 != 0).unwrap_or(false) && layout == Layout::Source && rng.bool() { rng.b_u16() } else { appid_hint as u16 },
            players_online: rng.b_u8(),
            players_max: rng.b_u8(),
            bots: rng.b_u8(),
            server_type: {
                let c = match layout {
                    Layout::Source => *rng.pick(b"dlp"),
                    Layout::ObsoleteGold => *rng.pick(b"DLP"),
                };
                if layout == Layout::Source && rng.bool() {
                    c.to_ascii_uppercase()
                } else {
                    c
                }
            },
            environment: {
                match layout {
                    Layout::Source => {
                        let c = *rng.pick(b"lwmo");
                        if rng.bool() {
                            c.to_ascii_uppercase()
                        } else {
                            c
                        }
                    }
                    Layout::ObsoleteGold => *rng.pick(b"LW"),
                }
            },
            visibility: *rng.pick(&[0u8, 1]),
            vac: *rng.pick(&[0u8, 1]),
            ship_mode: rng.b_u8(),
            ship_witnesses: rng.b_u8(),
            ship_duration: rng.b_u8(),
            version: rng.text(16, NO_NUL),
            edf,
            port: rng.b_u16(),
            steam_id: rng.b_u64(),
            tv_port: rng.b_u16(),
            tv_name: rng.text(16, NO_NUL),
            keywords: rng.text(40, NO_NUL),
            game_id,
            is_mod: *rng.pick(&[0u8, 1]),
            mod_link: rng.text(20, NO_NUL),
            mod_download: rng.text(20, NO_NUL),
            mod_version: rng.b_u32(),
            mod_size: rng.b_u32(),
            mod_mp_only: *rng.pick(&[0u8, 1]),
            mod_own_dll: *rng.pick(&[0u8, 1]),
            players,
            rules,
        }
    }

    pub fn reported_appid(&self) -> u32 {
        match self.layout {
            Layout::ObsoleteGold => 0,
            Layout::Source => {
                match self.edf {
                    Some(e) if e & 1 != 0 => (self.game_id & 0xff_ffff) as u32,
                    _ => self.appid16 as u32,
                }
            }
        }
    }

    /// complete simple message (FF FF FF FF + type + payload)
    pub fn info_message(&self) -> Vec<u8> {
        let mut o = vec![0xff, 0xff, 0xff, 0xff];
        match self.layout {
            Layout::Source => {
                o.push(0x49);
                o.push(self.protocol);
                sz(&mut o, &self.name);
                sz(&mut o, &self.map);
                sz(&mut o, &self.folder);
                sz(&mut o, &self.game);
                o.extend(self.appid16.to_le_bytes());
                o.extend([self.players_online, self.players_max, self.bots, self.server_type, self.environment, self.visibility, self.vac]);
                if self.ship {
                    o.extend([self.ship_mode, self.ship_witnesses, self.ship_duration]);
                }
                sz(&mut o, &self.version);
                if let Some(e) = self.edf {
                    o.push(e);
                    if e & 0x80 != 0 {
                        o.extend(self.port.to_le_bytes());
                    }
                    if e & 0x10 != 0 {
                        o.extend(self.steam_id.to_le_bytes());
                    }
                    if e & 0x40 != 0 {
                        o.extend(self.tv_port.to_le_bytes());
                        sz(&mut o, &self.tv_name);
                    }
                    if e & 0x20 != 0 {
                        sz(&mut o, &self.keywords);
                    }
                    if e & 0x01 != 0 {
                        o.extend(self.game_id.to_le_bytes());
                    }
                }
            }
            Layout::ObsoleteGold => {
                o.push(0x6d);
                sz(&mut o, &self.address);
                sz(&mut o, &self.name);
                sz(&mut o, &self.map);
                sz(&mut o, &self.folder);
                sz(&mut o, &self.game);
                o.extend([self.players_online, self.players_max, self.protocol, self.server_type, self.environment, self.visibility, self.is_mod]);
                if self.is_mod == 1 {
                    sz(&mut o, &self.mod_link);
                    sz(&mut o, &self.mod_download);
                    o.extend(self.mod_version.to_le_bytes());
                    o.extend(self.mod_size.to_le_bytes());
                    o.extend([self.mod_mp_only, self.mod_own_dll]);
                }
                o.extend([self.vac, self.bots]);
            }
        }
        o
    }

    pub fn players_message(&self) -> Vec<u8> {
        let mut o = vec![0xff, 0xff, 0xff, 0xff, 0x44, self.players.len() as u8];
        for p in &self.players {
            o.push(p.index);
            sz(&mut o, &p.name);
            o.extend(p.score.to_le_bytes());
            o.extend(p.duration_bits.to_le_bytes());
            if self.ship {
                o.extend(p.deaths.to_le_bytes());
                o.extend(p.money.to_le_bytes());
            }
        }
        o
    }

    pub fn rules_message(&self) -> Vec<u8> {
        let mut o = vec![0xff, 0xff, 0xff, 0xff, 0x45];
        o.extend((self.rules.len() as u16).to_le_bytes());
        for (k, v) in &self.rules {
            sz(&mut o, k);
            sz(&mut o, v);
        }
        o
    }

    pub fn expected_info(&self) -> ServerInfo {
        let st = |c: u8| match c.to_ascii_lowercase() {
            b'd' => valve::Server::Dedicated,
            b'l' => valve::Server::NonDedicated,
            _ => valve::Server::TV,
        };
        let env = |c: u8| match c.to_ascii_lowercase() {
            b'l' => Environment::Linux,
            b'w' => Environment::Windows,
            _ => Environment::Mac,
        };
        match self.layout {
            Layout::Source => ServerInfo {
                protocol_version: self.protocol,
                name: self.name.clone(),
                map: self.map.clone(),
                folder: self.folder.clone(),
                game_mode: self.game.clone(),
                appid: self.reported_appid(),
                players_online: self.players_online,
                players_maximum: self.players_max,
                players_bots: self.bots,
                server_type: st(self.server_type),
                environment_type: env(self.environment),
                has_password: self.visibility == 1,
                vac_secured: self.vac == 1,
                the_ship: if self.ship { Some(TheShip { mode: self.ship_mode, witnesses: self.ship_witnesses, duration: self.ship_duration }) } else { None },
                game_version: self.version.clone(),
                extra_data: self.edf.map(|e| ExtraData {
                    port: (e & 0x80 != 0).then_some(self.port),
                    steam_id: (e & 0x10 != 0).then_some(self.steam_id),
                    tv_port: (e & 0x40 != 0).then_some(self.tv_port),
                    tv_name: (e & 0x40 != 0).then(|| self.tv_name.clone()),
                    keywords: (e & 0x20 != 0).then(|| self.keywords.clone()),
                    game_id: (e & 0x01 != 0).then_some(self.game_id),
                }),
                is_mod: false,
                mod_data: None,
            },
            Layout::ObsoleteGold => ServerInfo {
                protocol_version: self.protocol,
                name: self.name.clone(),
                map: self.map.clone(),
                folder: self.folder.clone(),
                game_mode: self.game.clone(),
                appid: 0,
                players_online: self.players_online,
                players_maximum: self.players_max,
                players_bots: self.bots,
                server_type: st(self.server_type),
                environment_type: env(self.environment),
                has_password: self.visibility == 1,
                vac_secured: self.vac == 1,
                the_ship: None,
                game_version: String::new(),
                extra_data: None,
                is_mod: self.is_mod == 1,
                mod_data: (self.is_mod == 1).then(|| ModData {
                    link: self.mod_link.clone(),
                    download_link: self.mod_download.clone(),
                    version: self.mod_version,
                    size: self.mod_size,
                    multiplayer_only: self.mod_mp_only == 1,
                    has_own_dll: self.mod_own_dll == 1,
                }),
            },
        }
    }

    pub fn expected_players(&self) -> Vec<ServerPlayer> {
        self.players
            .iter()
            .map(|p| ServerPlayer {
                name: p.name.clone(),
                score: p.score,
                duration: f32::from_bits(p.duration_bits),
                deaths: self.ship.then_some(p.deaths),
                money: self.ship.then_some(p.money),
            })
            .collect()
    }

    pub fn expected_rules(&self) -> HashMap<String, String> { self.rules.iter().cloned().collect() }

    pub fn expected(&self, with_players: bool, with_rules: bool) -> Response {
        Response { info: self.expected_info(), players: with_players.then(|| self.expected_players()), rules: with_rules.then(|| self.expected_rules()) }
    }
}

/// Compare two valve responses with f32 durations compared bitwise (NaN-safe). Returns a description of the first difference.
pub fn diff_response(got: &Response, exp: &Response) -> Option<String> {
    if got.info != exp.info {
        return Some(diff_info(&got.info, &exp.info));
    }
    match (&got.players, &exp.players) {
        (None, None) => {}
        (Some(g), Some(e)) => {
            if g.len() != e.len() {
                return Some(format!("players.len got {} expected {}", g.len(), e.len()));
            }
            for (i, (a, b)) in g.iter().zip(e).enumerate() {
                if a.name != b.name {
                    return Some(format!("players[{i}].name"));
                }
                if a.score != b.score {
                    return Some(format!("players[{i}].score"));
                }
                if a.duration.to_bits() != b.duration.to_bits() {
                    return Some(format!("players[{i}].duration"));
                }
                if a.deaths != b.deaths {
                    return Some(format!("players[{i}].deaths"));
                }
                if a.money != b.money {
                    return Some(format!("players[{i}].money"));
                }
            }
        }
        (g, e) => return Some(format!("players presence got {} expected {}", g.is_some(), e.is_some())),
    }
    if got.rules != exp.rules {
        return Some(match (&got.rules, &exp.rules) {
            (Some(g), Some(e)) => format!("rules differ (got {} expected {})", g.len(), e.len()),
            (g, e) => format!("rules presence got {} expected {}", g.is_some(), e.is_some()),
        });
    }
    None
}

pub fn diff_info(g: &ServerInfo, e: &ServerInfo) -> String {
    macro_rules! f {
        ($($n:ident),*) => { $( if g.$n != e.$n { return format!("info.{}", stringify!($n)); } )* };
    }
    f!(protocol_version, name, map, folder, game_mode, appid, players_online, players_maximum, players_bots, server_type, environment_type, has_password, vac_secured, the_ship, game_version, extra_data, is_mod, mod_data);
    "info".into()
}

// ---------------------------------------------------------------------------------------------
// transport encodings

#[derive(Debug, Clone, Copy, PartialEq, Eq, Hash)]
pub enum Encoding {
    Single,
    /// Source split into n fragments
    SourceSplit(usize),
    /// GoldSrc split (nibble packed)
    GoldSplit(usize),
    /// Source split of the bzip2-compressed message
    Compressed(usize),
}

/// cut `msg` into `n` non-empty slices; `adversarial` picks boundaries inside strings / headers
pub fn cut(rng: &mut Rng, msg: &[u8], n: usize, adversarial: bool) -> Vec<Vec<u8>> {
    let n = n.min(msg.len()).max(1);
    let mut cuts: Vec<usize> = Vec::new();
    let mut tries = 0;
    if msg.len() / n > 700 {
        // large message: near-equal slices with a little jitter so that no datagram exceeds the
        // client's receive buffer (real servers split at ~1200 bytes)
        let step = msg.len() / n;
        for i in 1 .. n {
            let j = rng.usize(0, 100);
            cuts.push((i * step + j).min(msg.len() - 1).saturating_sub(50).max(1));
        }
        cuts.dedup();
    }
    while cuts.len() < n - 1 && tries < 1000 {
        tries += 1;
        let c = if adversarial && rng.bool() {
            // just before / after a NUL, or inside the 5-byte header of the reassembled message
            let nuls: Vec<usize> = msg.iter().enumerate().filter(|(_, b)| **b == 0).map(|(i, _)| i).collect();
            match rng.below(3) {
                0 if !nuls.is_empty() => *rng.pick(&nuls),
                1 if !nuls.is_empty() => *rng.pick(&nuls) + 1,
                _ => rng.usize(1, 5.min(msg.len() - 1).max(1)),
            }
        } else {
            rng.usize(1, msg.len() - 1)
        };
        if c >= 1 && c < msg.len() && !cuts.contains(&c) {
            cuts.push(c);
        }
    }
    cuts.sort();
    let mut out = Vec::new();
    let mut prev = 0;
    for c in cuts {
        out.push(msg[prev .. c].to_vec());
        prev = c;
    }
    out.push(msg[prev ..].to_vec());
    out
}

/// Encode one simple message as datagrams (in order).
/// `no_size_field`: the appid-240/protocol-7 quirk.
pub fn encode(rng: &mut Rng, msg: &[u8], enc: Encoding, no_size_field: bool, bz: Option<&[u8]>) -> Vec<Vec<u8>> {
    match enc {
        Encoding::Single => vec![msg.to_vec()],
        Encoding::SourceSplit(n) => {
            let id = rng.u32() & 0x7fff_ffff;
            let adv = rng.bool();
            let parts = cut(rng, msg, n, adv);
            let total = parts.len() as u8;
            parts
                .iter()
                .enumerate()
                .map(|(i, p)| {
                    let mut d = vec![0xfe, 0xff, 0xff, 0xff];
                    d.extend(id.to_le_bytes());
                    d.push(total);
                    d.push(i as u8);
                    if !no_size_field {
                        d.extend(1248u16.to_le_bytes());
                    }
                    d.extend(p);
                    d
                })
                .collect()
        }
        Encoding::GoldSplit(n) => {
            let id = rng.u32();
            let adv = rng.bool();
            let parts = cut(rng, msg, n.min(15), adv);
            let total = parts.len() as u8;
            parts
                .iter()
                .enumerate()
                .map(|(i, p)| {
                    let mut d = vec![0xfe, 0xff, 0xff, 0xff];
                    d.extend(id.to_le_bytes());
                    d.push(((i as u8) << 4) | total);
                    d.extend(p);
                    d
                })
                .collect()
        }
        Encoding::Compressed(n) => {
            let bz = bz.expect("compressed payload");
            let id = rng.u32() | 0x8000_0000;
            let parts = cut(rng, bz, n, false);
            let total = parts.len() as u8;
            let crc = crc32fast::hash(msg);
            parts
                .iter()
                .enumerate()
                .map(|(i, p)| {
                    let mut d = vec![0xfe, 0xff, 0xff, 0xff];
                    d.extend(id.to_le_bytes());
                    d.push(total);
                    d.push(i as u8);
                    if !no_size_field {
                        d.extend(1248u16.to_le_bytes());
                    }
                    if i == 0 {
                        d.extend((msg.len() as u32).to_le_bytes());
                        d.extend(crc.to_le_bytes());
                    }
                    d.extend(p);
                    d
                })
                .collect()
        }
    }
}

/// bzip2-compress with the system tool (the repository only contains a decoder)
pub fn bzip2(data: &[u8]) -> Option<Vec<u8>> {
    use std::io::Write;
    use std::process::{Command, Stdio};
    let mut c = Command::new("bzip2").arg("-c").stdin(Stdio::piped()).stdout(Stdio::piped()).stderr(Stdio::null()).spawn().ok()?;
    // feed stdin from another thread: with more than a pipe buffer of data both pipes fill up otherwise
    let mut stdin = c.stdin.take()?;
    let input = data.to_vec();
    let feeder = std::thread::spawn(move || {
        let _ = stdin.write_all(&input);
    });
    let out = c.wait_with_output().ok()?;
    let _ = feeder.join();
    if out.status.success() {
        Some(out.stdout)
    } else {
        None
    }
}

// ---------------------------------------------------------------------------------------------
// reactive server

#[derive(Debug, Clone, Copy, PartialEq, Eq)]
pub enum Section {
    Info = 0,
    Players = 1,
    Rules = 2,
}

/// How the server behaves for one section on one attempt.
#[derive(Debug, Clone, PartialEq, Eq)]
pub enum Behaviour {
    /// answer with these datagrams (after the configured challenge rounds)
    Answer(Vec<Vec<u8>>),
    Silent,
    SendFails,
    /// issue a challenge, then never answer
    ChallengeThenSilent,
}

pub struct A2sServer {
    /// per section: behaviour per attempt (last one repeats)
    pub plan: [Vec<Behaviour>; 3],
    /// challenge rounds before an answer, per section
    pub rounds: [u32; 3],
    /// challenge values to issue (cycled)
    pub challenges: Vec<[u8; 4]>,
    /// if non-empty for a section: the challenges issued for that section, in order (cycled)
    pub section_challenges: [Vec<[u8; 4]>; 3],
    // --- state
    issued: [Vec<[u8; 4]>; 3],
    attempt: [usize; 3],
    next_challenge: usize,
    /// requests seen per section: (bytes, carried the expected challenge?)
    pub seen: [Vec<Vec<u8>>; 3],
    /// every challenge issued per section, in order (never cleared)
    pub issued_log: [Vec<[u8; 4]>; 3],
    pub protocol_errors: Vec<String>,
}

pub const INFO_PAYLOAD: &[u8] = b"Source Engine Query\0";

impl A2sServer {
    pub fn new(info: Vec<Vec<u8>>, players: Vec<Vec<u8>>, rules: Vec<Vec<u8>>) -> Self {
        Self {
            plan: [vec![Behaviour::Answer(info)], vec![Behaviour::Answer(players)], vec![Behaviour::Answer(rules)]],
            rounds: [0; 3],
            challenges: vec![[0x12, 0x34, 0x56, 0x78]],
            section_challenges: [vec![], vec![], vec![]],
            issued: [vec![], vec![], vec![]],
            attempt: [0; 3],
            next_challenge: 0,
            seen: [vec![], vec![], vec![]],
            issued_log: [vec![], vec![], vec![]],
            protocol_errors: vec![],
        }
    }

    fn classify(data: &[u8]) -> Option<(Section, &[u8])> {
        if data.len() < 5 || data[.. 4] != [0xff, 0xff, 0xff, 0xff] {
            return None;
        }
        let rest = &data[5 ..];
        match data[4] {
            0x54 => {
                if rest.starts_with(INFO_PAYLOAD) {
                    Some((Section::Info, &rest[INFO_PAYLOAD.len() ..]))
                } else {
                    None
                }
            }
            0x55 => Some((Section::Players, rest)),
            0x56 => Some((Section::Rules, rest)),
            _ => None,
        }
    }
}

impl Server for A2sServer {
    fn on_send(&mut self, conn: &mut Conn, data: &[u8]) -> bool {
        let (sec, tail) = match Self::classify(data) {
            Some(x) => x,
            None => {
                self.protocol_errors.push(format!("unrecognised request {}", crate::core::net::hex(data)));
                return true;
            }
        };
        let s = sec as usize;
        self.seen[s].push(data.to_vec());
        // is this a fresh attempt (un-challenged request) or a continuation carrying our last challenge?
        // a request carrying the challenge just issued is its echo, even if that challenge happens to be FF FF FF FF
        let is_echo = self.issued[s].last().map(|ch| tail == ch).unwrap_or(false);
        let fresh = !is_echo
            && match sec {
                Section::Info => tail.is_empty(),
                _ => tail == [0xff, 0xff, 0xff, 0xff],
            };
        if fresh {
            // a second un-challenged request for the same section is a retry: next attempt
            if self.seen[s].len() > 1 {
                self.attempt[s] += 1;
            }
            self.issued[s].clear();
        } else {
            match self.issued[s].last() {
                Some(ch) if tail == ch => {}
                Some(ch) => {
                    self.protocol_errors.push(format!("section {s}: request carries {} but challenge {} was issued", crate::core::net::hex(tail), crate::core::net::hex(ch)));
                    return true; // a real server would not answer
                }
                None => {
                    self.protocol_errors.push(format!("section {s}: request carries {} but no challenge was issued", crate::core::net::hex(tail)));
                    return true;
                }
            }
        }
        let beh = {
            let p = &self.plan[s];
            p[self.attempt[s].min(p.len() - 1)].clone()
        };
        match beh {
            Behaviour::SendFails => return false,
            Behaviour::Silent => {}
            Behaviour::ChallengeThenSilent => {
                if self.issued[s].is_empty() {
                    let ch = self.challenges[self.next_challenge % self.challenges.len()];
                    self.next_challenge += 1;
                    self.issued[s].push(ch);
                    self.issued_log[s].push(ch);
                    let mut d = vec![0xff, 0xff, 0xff, 0xff, 0x41];
                    d.extend(ch);
                    conn.reply(d);
                }
            }
            Behaviour::Answer(dgrams) => {
                if (self.issued[s].len() as u32) < self.rounds[s] {
                    let ch = if self.section_challenges[s].is_empty() { self.challenges[self.next_challenge % self.challenges.len()] } else { self.section_challenges[s][self.issued_log[s].len() % self.section_challenges[s].len()] };
                    self.next_challenge += 1;
                    self.issued[s].push(ch);
                    self.issued_log[s].push(ch);
                    let mut d = vec![0xff, 0xff, 0xff, 0xff, 0x41];
                    d.extend(ch);
                    conn.reply(d);
                } else {
                    conn.reply_all(dgrams);
                }
            }
        }
        true
    }
}


/// The per-game response a Valve game module must derive from a protocol response: written from the field
/// documentation of `valve::game::Response` (every field is the equally named / documented field of the protocol
/// response; players and rules are all of those gathered, none when the section is absent), independently of the
/// library's own conversion.
pub fn project_game(resp: &gamedig::protocols::valve::Response) -> gamedig::protocols::valve::game::Response {
    use gamedig::protocols::valve::game;
    let x = resp.info.extra_data.as_ref();
    game::Response {
        protocol: resp.info.protocol_version,
        name: resp.info.name.clone(),
        map: resp.info.map.clone(),
        game: resp.info.game_mode.clone(),
        appid: resp.info.appid,
        players_online: resp.info.players_online,
        players_details: resp.players.as_ref().map(|ps| ps.iter().map(|p| game::Player { name: p.name.clone(), score: p.score, duration: p.duration }).collect()).unwrap_or_default(),
        players_maximum: resp.info.players_maximum,
        players_bots: resp.info.players_bots,
        server_type: resp.info.server_type.clone(),
        has_password: resp.info.has_password,
        vac_secured: resp.info.vac_secured,
        version: resp.info.game_version.clone(),
        port: x.and_then(|x| x.port),
        steam_id: x.and_then(|x| x.steam_id),
        tv_port: x.and_then(|x| x.tv_port),
        tv_name: x.and_then(|x| x.tv_name.clone()),
        keywords: x.and_then(|x| x.keywords.clone()),
        rules: resp.rules.clone().unwrap_or_default(),
    }
}
