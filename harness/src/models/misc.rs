//! Reference models of the single-game protocols (DESIGN.md Appendix A.8) and the Eco HTTP front page.

use crate::core::net::{Conn, Server};
use crate::core::rng::Rng;
use crate::models::valve::sz;
use gamedig::games::{eco, ffow, jc2m, mindustry, savage2};
use gamedig::protocols::valve::{Environment, Server as VServer};
use std::collections::HashMap;

const NO: &[char] = &[];

// ------------------------------------------------------------------------------------------------
// Frontlines: Fuel of War

#[derive(Debug, Clone)]
pub struct FfowState {
    pub protocol: u8,
    pub name: String,
    pub map: String,
    pub active_mod: String,
    pub game_mode: String,
    pub description: String,
    pub version: String,
    pub port: u16,
    pub players: u8,
    pub max: u8,
    pub server_type: u8,
    pub environment: u8,
    pub password: u8,
    pub secure: u8,
    pub fps: u8,
    pub round: u8,
    pub rounds_max: u8,
    pub time_left: u16,
    pub challenge: Option<[u8; 4]>,
}

impl FfowState {
    pub fn gen(rng: &mut Rng) -> Self {
        let up = |rng: &mut Rng, c: u8| if rng.bool() { c.to_ascii_uppercase() } else { c };
        let st = *rng.pick(b"dlp");
        let env = *rng.pick(b"lwmo");
        Self {
            protocol: rng.b_u8(),
            name: rng.text(40, NO),
            map: rng.text(20, NO),
            active_mod: rng.text(12, NO),
            game_mode: rng.text(12, NO),
            description: rng.text(60, NO),
            version: rng.text(10, NO),
            port: rng.b_u16(),
            players: rng.b_u8(),
            max: rng.b_u8(),
            server_type: up(rng, st),
            environment: up(rng, env),
            password: *rng.pick(&[0u8, 1]),
            secure: *rng.pick(&[0u8, 1]),
            fps: rng.b_u8(),
            round: rng.b_u8(),
            rounds_max: rng.b_u8(),
            time_left: rng.b_u16(),
            challenge: rng.chance(1, 3).then(|| [rng.b_u8(), rng.b_u8(), rng.b_u8(), rng.b_u8()]),
        }
    }

    pub fn datagram(&self) -> Vec<u8> {
        let mut o = vec![0xff, 0xff, 0xff, 0xff, 0x46, self.protocol];
        for s in [&self.name, &self.map, &self.active_mod, &self.game_mode, &self.description, &self.version] {
            sz(&mut o, s);
        }
        o.extend(self.port.to_le_bytes());
        o.extend([self.players, self.max, self.server_type, self.environment, self.password, self.secure, self.fps, self.round, self.rounds_max]);
        o.extend(self.time_left.to_le_bytes());
        o
    }

    pub fn expected(&self) -> ffow::Response {
        ffow::Response {
            protocol_version: self.protocol,
            name: self.name.clone(),
            active_mod: self.active_mod.clone(),
            game_mode: self.game_mode.clone(),
            game_version: self.version.clone(),
            description: self.description.clone(),
            map: self.map.clone(),
            players_online: self.players,
            players_maximum: self.max,
            server_type: match self.server_type.to_ascii_lowercase() {
                b'd' => VServer::Dedicated,
                b'l' => VServer::NonDedicated,
                _ => VServer::TV,
            },
            environment_type: match self.environment.to_ascii_lowercase() {
                b'l' => Environment::Linux,
                b'w' => Environment::Windows,
                _ => Environment::Mac,
            },
            has_password: self.password == 1,
            vac_secured: self.secure == 1,
            round: self.round,
            rounds_maximum: self.rounds_max,
            time_left: self.time_left,
        }
    }
}

pub struct FfowServer {
    pub reply: Vec<u8>,
    pub challenge: Option<[u8; 4]>,
    pub issued: bool,
    pub requests: Vec<Vec<u8>>,
    pub errors: Vec<String>,
}

impl Server for FfowServer {
    fn on_send(&mut self, conn: &mut Conn, data: &[u8]) -> bool {
        self.requests.push(data.to_vec());
        let initial = [&[0xff, 0xff, 0xff, 0xff, 0x46][..], b"LSQ"].concat();
        if data == initial.as_slice() {
            match self.challenge {
                Some(c) => {
                    self.issued = true;
                    let mut d = vec![0xff, 0xff, 0xff, 0xff, 0x41];
                    d.extend(c);
                    conn.reply(d);
                }
                None => conn.reply(self.reply.clone()),
            }
        } else if self.issued && self.challenge.map(|c| data == [&[0xff, 0xff, 0xff, 0xff, 0x46][..], &c[..]].concat().as_slice()).unwrap_or(false) {
            conn.reply(self.reply.clone());
        } else {
            self.errors.push(format!("unexpected request {}", crate::core::net::hex(data)));
        }
        true
    }
}

// ------------------------------------------------------------------------------------------------
// Savage 2

#[derive(Debug, Clone)]
pub struct Savage2State {
    pub opaque: [u8; 12],
    pub r: savage2::Response,
}

impl Savage2State {
    pub fn gen(rng: &mut Rng) -> Self {
        let mut opaque = [0u8; 12];
        for b in opaque.iter_mut() {
            *b = rng.u8();
        }
        Self {
            opaque,
            r: savage2::Response {
                name: rng.text(40, NO),
                players_online: rng.b_u8(),
                players_maximum: rng.b_u8(),
                players_minimum: rng.b_u8(),
                time: rng.text(8, NO),
                map: rng.text(16, NO),
                next_map: rng.text(16, NO),
                location: rng.text(8, NO),
                game_mode: rng.text(12, NO),
                protocol_version: rng.text(10, NO),
                level_minimum: rng.b_u8(),
            },
        }
    }

    pub fn datagram(&self) -> Vec<u8> {
        let r = &self.r;
        let mut o = self.opaque.to_vec();
        sz(&mut o, &r.name);
        o.extend([r.players_online, r.players_maximum]);
        sz(&mut o, &r.time);
        sz(&mut o, &r.map);
        sz(&mut o, &r.next_map);
        sz(&mut o, &r.location);
        o.push(r.players_minimum);
        sz(&mut o, &r.game_mode);
        sz(&mut o, &r.protocol_version);
        o.push(r.level_minimum);
        o
    }
}

// ------------------------------------------------------------------------------------------------
// Just Cause 2: Multiplayer (GameSpy 3 framing, single packet)

#[derive(Debug, Clone)]
pub struct Jc2mState {
    pub hostname: String,
    pub version: String,
    pub description: String,
    pub maxplayers: u32,
    pub numplayers: Option<u32>,
    pub password: (bool, String),
    pub extras: Vec<(String, String)>,
    pub players: Vec<jc2m::Player>,
    pub declared_count: u16,
}

impl Jc2mState {
    pub fn gen(rng: &mut Rng, n_players: usize) -> Self {
        let f = &['\u{0}'];
        let pw = rng.bool();
        let short = n_players > 30;
        Self {
            hostname: rng.text(40, f),
            version: rng.text(10, f),
            description: rng.text(60, f),
            maxplayers: rng.b_u32(),
            numplayers: rng.bool().then(|| if rng.bool() { n_players as u32 } else { rng.below(200) as u32 }),
            password: (pw, (if pw { *rng.pick(&["1", "true", "True"]) } else { *rng.pick(&["0", "false", "FALSE"]) }).to_string()),
            extras: crate::models::gamespy::extras(rng, rng.clone().usize(0, 4), f),
            players: (0 .. n_players).map(|_| jc2m::Player { name: rng.text(if short { 3 } else { 16 }, f), steam_id: if short { rng.below(1000).to_string() } else { (76561197960265728u64 + rng.below(1 << 32)).to_string() }, ping: rng.b_u16() }).collect(),
            declared_count: n_players as u16,
        }
    }

    pub fn datagram(&self, rng: &mut Rng) -> Vec<u8> {
        let mut o = vec![0x00, 0x00, 0x00, 0x00, 0x01];
        o.extend(b"splitnum\0");
        o.push(0x80);
        o.push(0x00);
        let mut kv: Vec<(String, String)> = vec![
            ("hostname".into(), self.hostname.clone()),
            ("version".into(), self.version.clone()),
            ("description".into(), self.description.clone()),
            ("maxplayers".into(), self.maxplayers.to_string()),
            ("password".into(), self.password.1.clone()),
        ];
        if let Some(n) = self.numplayers {
            kv.push(("numplayers".into(), n.to_string()));
        }
        kv.extend(self.extras.iter().cloned());
        if rng.bool() {
            rng.shuffle(&mut kv);
        }
        for (k, v) in kv {
            sz(&mut o, &k);
            sz(&mut o, &v);
        }
        o.push(0);
        o.extend(self.declared_count.to_be_bytes());
        for p in &self.players {
            sz(&mut o, &p.name);
            sz(&mut o, &p.steam_id);
            o.extend(p.ping.to_be_bytes());
        }
        o
    }

    pub fn expected(&self) -> jc2m::Response {
        let listed = self.players.len() as u32;
        jc2m::Response {
            game_version: self.version.clone(),
            description: self.description.clone(),
            name: self.hostname.clone(),
            has_password: self.password.0,
            players: self.players.clone(),
            players_maximum: self.maxplayers,
            players_online: self.numplayers.map(|n| n.max(listed)).unwrap_or(listed),
        }
    }
}

// ------------------------------------------------------------------------------------------------
// Mindustry

#[derive(Debug, Clone)]
pub struct MindustryState {
    pub d: mindustry::types::ServerData,
    pub mode_byte: u8,
}

fn ls(o: &mut Vec<u8>, s: &str) {
    o.push(s.len() as u8);
    o.extend(s.bytes());
}

fn short_text(rng: &mut Rng, max_bytes: usize) -> String {
    let mut s = rng.text(max_bytes / 2, &['\u{0}']);
    while s.len() > max_bytes {
        s.pop();
    }
    s
}

impl MindustryState {
    pub fn gen(rng: &mut Rng) -> Self {
        use mindustry::types::GameMode::*;
        let mode_byte = rng.below(5) as u8;
        Self {
            mode_byte,
            d: mindustry::types::ServerData {
                host: short_text(rng, 60),
                map: short_text(rng, 40),
                players: rng.b_i32(),
                wave: rng.b_i32(),
                version: rng.b_i32(),
                version_type: short_text(rng, 16),
                gamemode: [Survival, Sandbox, Attack, PVP, Editor][mode_byte as usize].clone(),
                player_limit: rng.b_i32(),
                description: short_text(rng, 100),
                mode_name: rng.bool().then(|| short_text(rng, 20)),
            },
        }
    }

    pub fn datagram(&self) -> Vec<u8> {
        let d = &self.d;
        let mut o = Vec::new();
        ls(&mut o, &d.host);
        ls(&mut o, &d.map);
        o.extend(d.players.to_be_bytes());
        o.extend(d.wave.to_be_bytes());
        o.extend(d.version.to_be_bytes());
        ls(&mut o, &d.version_type);
        o.push(self.mode_byte);
        o.extend(d.player_limit.to_be_bytes());
        ls(&mut o, &d.description);
        if let Some(m) = &d.mode_name {
            ls(&mut o, m);
        }
        o
    }
}

// ------------------------------------------------------------------------------------------------
// Eco (HTTP JSON)

#[derive(Debug, Clone)]
pub struct EcoState {
    pub r: eco::Response,
}

fn finite_f64(rng: &mut Rng) -> f64 {
    // values whose shortest decimal form has few digits: serde_json's default (non-roundtrip) float
    // parser is exact on these; arbitrary 17-digit values can come back 1 ULP off, which is the JSON
    // library's accuracy and not something the property speaks about
    match rng.below(6) {
        0 => 0.0,
        1 => -1.5,
        2 => 1e-7,
        3 => 86400.0 * rng.below(1000) as f64,
        4 => (rng.below(1_000_000) as f64) / 8.0,
        _ => (rng.below(2_000_000_000) as f64 - 1_000_000_000.0) / 1000.0,
    }
}

impl EcoState {
    pub fn gen(rng: &mut Rng) -> Self {
        let n_players = rng.usize(0, 20);
        let mut ach = HashMap::new();
        for _ in 0 .. rng.usize(0, 4) {
            ach.insert(rng.text1(10, NO), rng.text(20, NO));
        }
        Self {
            r: eco::Response {
                external: rng.bool(),
                port: rng.b_u32(),
                query_port: rng.b_u32(),
                is_lan: rng.bool(),
                description: rng.text(60, NO),
                description_detailed: rng.text(100, NO),
                description_economy: rng.text(30, NO),
                category: rng.text(10, NO),
                players_online: rng.b_u32(),
                players_maximum: rng.b_u32(),
                players: (0 .. n_players).map(|_| eco::Player { name: rng.text(16, NO) }).collect(),
                admin_online: rng.bool(),
                time_since_start: finite_f64(rng),
                time_left: finite_f64(rng),
                animals: rng.b_u32(),
                plants: rng.b_u32(),
                laws: rng.b_u32(),
                world_size: rng.text(10, NO),
                game_version: rng.text(10, NO),
                skill_specialization_setting: rng.text(10, NO),
                language: rng.text(8, NO),
                has_password: rng.bool(),
                has_meteor: rng.bool(),
                distribution_station_items: rng.text(20, NO),
                playtimes: rng.text(20, NO),
                discord_address: rng.text(20, NO),
                is_paused: rng.bool(),
                active_and_online_players: rng.b_u32(),
                peak_active_players: rng.b_u32(),
                max_active_players: rng.b_u32(),
                shelf_life_multiplier: finite_f64(rng),
                exhaustion_after_hours: finite_f64(rng),
                is_limiting_hours: rng.bool(),
                server_achievements_dict: ach,
                relay_address: rng.text(20, NO),
                access: rng.text(10, NO),
                connect: rng.text(30, NO),
            },
        }
    }

    /// members of "Info" as (name, json text), in the reply's field names
    pub fn members(&self, rng: &mut Rng) -> Vec<(&'static str, String)> {
        use crate::models::minecraft::json_string as js;
        let r = &self.r;
        let names: Vec<String> = r.players.iter().map(|p| js(rng, &p.name)).collect();
        let ach: Vec<String> = r.server_achievements_dict.iter().map(|(k, v)| format!("{}:{}", js(rng, k), js(rng, v))).collect();
        vec![
            ("External", r.external.to_string()),
            ("GamePort", r.port.to_string()),
            ("WebPort", r.query_port.to_string()),
            ("IsLAN", r.is_lan.to_string()),
            ("Description", js(rng, &r.description)),
            ("DetailedDescription", js(rng, &r.description_detailed)),
            ("Category", js(rng, &r.category)),
            ("OnlinePlayers", r.players_online.to_string()),
            ("TotalPlayers", r.players_maximum.to_string()),
            ("OnlinePlayersNames", format!("[{}]", names.join(","))),
            ("AdminOnline", r.admin_online.to_string()),
            ("TimeSinceStart", format!("{:?}", r.time_since_start)),
            ("TimeLeft", format!("{:?}", r.time_left)),
            ("Animals", r.animals.to_string()),
            ("Plants", r.plants.to_string()),
            ("Laws", r.laws.to_string()),
            ("WorldSize", js(rng, &r.world_size)),
            ("Version", js(rng, &r.game_version)),
            ("EconomyDesc", js(rng, &r.description_economy)),
            ("SkillSpecializationSetting", js(rng, &r.skill_specialization_setting)),
            ("Language", js(rng, &r.language)),
            ("HasPassword", r.has_password.to_string()),
            ("HasMeteor", r.has_meteor.to_string()),
            ("DistributionStationItems", js(rng, &r.distribution_station_items)),
            ("Playtimes", js(rng, &r.playtimes)),
            ("DiscordAddress", js(rng, &r.discord_address)),
            ("IsPaused", r.is_paused.to_string()),
            ("ActiveAndOnlinePlayers", r.active_and_online_players.to_string()),
            ("PeakActivePlayers", r.peak_active_players.to_string()),
            ("MaxActivePlayers", r.max_active_players.to_string()),
            ("ShelfLifeMultiplier", format!("{:?}", r.shelf_life_multiplier)),
            ("ExhaustionAfterHours", format!("{:?}", r.exhaustion_after_hours)),
            ("IsLimitingHours", r.is_limiting_hours.to_string()),
            ("ServerAchievementsDict", format!("{{{}}}", ach.join(","))),
            ("RelayAddress", js(rng, &r.relay_address)),
            ("Access", js(rng, &r.access)),
            ("JoinUrl", js(rng, &r.connect)),
        ]
    }

    pub fn body(&self, rng: &mut Rng, drop_member: Option<usize>) -> String {
        let mut m = self.members(rng);
        if let Some(i) = drop_member {
            m.remove(i % m.len());
        }
        if rng.bool() {
            rng.shuffle(&mut m);
        }
        let inner: Vec<String> = m.iter().map(|(k, v)| format!("\"{k}\":{v}")).collect();
        format!("{{\"Info\":{{{}}}}}", inner.join(","))
    }
}

/// Serve exactly one HTTP exchange on a fresh loopback port; returns (port, join handle yielding the request text).
pub fn http_once(body: Vec<u8>, chunked: bool) -> std::io::Result<(u16, std::thread::JoinHandle<String>)> {
    use std::io::{Read, Write};
    let listener = std::net::TcpListener::bind("127.0.0.1:0")?;
    let port = listener.local_addr()?.port();
    let h = std::thread::spawn(move || {
        let mut req = Vec::new();
        listener.set_nonblocking(true).ok();
        let deadline = std::time::Instant::now() + std::time::Duration::from_secs(6);
        let mut accepted = None;
        while std::time::Instant::now() < deadline {
            match listener.accept() {
                Ok(x) => {
                    accepted = Some(x);
                    break;
                }
                Err(_) => std::thread::sleep(std::time::Duration::from_micros(200)),
            }
        }
        if let Some((mut s, _)) = accepted {
            s.set_nonblocking(false).ok();
            s.set_read_timeout(Some(std::time::Duration::from_secs(5))).ok();
            let mut buf = [0u8; 2048];
            while !req.windows(4).any(|w| w == b"\r\n\r\n") {
                match s.read(&mut buf) {
                    Ok(0) | Err(_) => break,
                    Ok(n) => req.extend_from_slice(&buf[.. n]),
                }
            }
            let mut resp: Vec<u8> = Vec::new();
            if chunked {
                resp.extend(b"HTTP/1.1 200 OK\r\nContent-Type: application/json\r\nTransfer-Encoding: chunked\r\nConnection: close\r\n\r\n");
                for c in body.chunks(700) {
                    resp.extend(format!("{:x}\r\n", c.len()).bytes());
                    resp.extend(c);
                    resp.extend(b"\r\n");
                }
                resp.extend(b"0\r\n\r\n");
            } else {
                resp.extend(format!("HTTP/1.1 200 OK\r\nContent-Type: application/json\r\nContent-Length: {}\r\nConnection: close\r\n\r\n", body.len()).bytes());
                resp.extend(&body);
            }
            let _ = s.write_all(&resp);
            let _ = s.flush();
        }
        String::from_utf8_lossy(&req).to_string()
    });
    Ok((port, h))
}


/// An HTTP server that answers one request with headers and the first part of a body, then keeps the connection
/// open without sending anything more until the returned flag is set (or `hold` has passed).
pub fn http_stall(prefix: Vec<u8>, announced_len: usize, chunked: bool, hold: std::time::Duration) -> std::io::Result<(u16, std::sync::Arc<std::sync::atomic::AtomicBool>, std::thread::JoinHandle<()>)> {
    use std::io::{Read, Write};
    use std::sync::atomic::{AtomicBool, Ordering};
    let listener = std::net::TcpListener::bind("127.0.0.1:0")?;
    let port = listener.local_addr()?.port();
    let stop = std::sync::Arc::new(AtomicBool::new(false));
    let stop2 = stop.clone();
    let h = std::thread::spawn(move || {
        listener.set_nonblocking(true).ok();
        let t0 = std::time::Instant::now();
        let mut accepted = None;
        while t0.elapsed() < hold && !stop2.load(Ordering::SeqCst) {
            match listener.accept() {
                Ok(x) => {
                    accepted = Some(x);
                    break;
                }
                Err(_) => std::thread::sleep(std::time::Duration::from_micros(300)),
            }
        }
        if let Some((mut s, _)) = accepted {
            s.set_nonblocking(false).ok();
            s.set_read_timeout(Some(std::time::Duration::from_secs(5))).ok();
            let mut req = Vec::new();
            let mut buf = [0u8; 2048];
            while !req.windows(4).any(|w| w == b"\r\n\r\n") {
                match s.read(&mut buf) {
                    Ok(0) | Err(_) => break,
                    Ok(n) => req.extend_from_slice(&buf[.. n]),
                }
            }
            let mut resp: Vec<u8> = Vec::new();
            if chunked {
                resp.extend(b"HTTP/1.1 200 OK\r\nContent-Type: application/json\r\nTransfer-Encoding: chunked\r\n\r\n");
                resp.extend(format!("{:x}\r\n", announced_len).bytes());
            } else {
                resp.extend(format!("HTTP/1.1 200 OK\r\nContent-Type: application/json\r\nContent-Length: {announced_len}\r\n\r\n").bytes());
            }
            resp.extend(&prefix);
            let _ = s.write_all(&resp);
            let _ = s.flush();
            while t0.elapsed() < hold && !stop2.load(Ordering::SeqCst) {
                std::thread::sleep(std::time::Duration::from_millis(5));
            }
        }
    });
    Ok((port, stop, h))
}

/// nesting depth (open objects + arrays, outside strings) at the end of a JSON text prefix
pub fn json_depth_at_end(prefix: &[u8]) -> usize {
    let (mut depth, mut in_str, mut esc) = (0usize, false, false);
    for &b in prefix {
        if in_str {
            if esc {
                esc = false;
            } else if b == b'\\' {
                esc = true;
            } else if b == b'"' {
                in_str = false;
            }
        } else {
            match b {
                b'"' => in_str = true,
                b'{' | b'[' => depth += 1,
                b'}' | b']' => depth = depth.saturating_sub(1),
                _ => {}
            }
        }
    }
    depth
}


/// An HTTP server that answers the first request it sees with a redirect (keep-alive) and never answers anything
/// after that, on whatever connection it arrives, until the flag is set (or `hold` has passed).
pub fn http_redirect_then_silent(hold: std::time::Duration) -> std::io::Result<(u16, std::sync::Arc<std::sync::atomic::AtomicBool>, std::thread::JoinHandle<usize>)> {
    use std::io::{Read, Write};
    use std::sync::atomic::{AtomicBool, Ordering};
    let listener = std::net::TcpListener::bind("127.0.0.1:0")?;
    let port = listener.local_addr()?.port();
    let stop = std::sync::Arc::new(AtomicBool::new(false));
    let stop2 = stop.clone();
    let h = std::thread::spawn(move || -> usize {
        listener.set_nonblocking(true).ok();
        let t0 = std::time::Instant::now();
        let mut conns: Vec<(std::net::TcpStream, Vec<u8>)> = Vec::new();
        let mut requests = 0usize;
        let mut buf = [0u8; 2048];
        while t0.elapsed() < hold && !stop2.load(Ordering::SeqCst) {
            if let Ok((s, _)) = listener.accept() {
                s.set_nonblocking(true).ok();
                conns.push((s, Vec::new()));
            }
            for (s, acc) in conns.iter_mut() {
                if let Ok(n) = s.read(&mut buf) {
                    acc.extend_from_slice(&buf[.. n]);
                    while let Some(p) = acc.windows(4).position(|w| w == b"\r\n\r\n") {
                        acc.drain(.. p + 4);
                        requests += 1;
                        if requests == 1 {
                            s.set_nonblocking(false).ok();
                            let _ = s.write_all(b"HTTP/1.1 302 Found\r\nLocation: /elsewhere\r\nContent-Length: 0\r\n\r\n");
                            let _ = s.flush();
                            s.set_nonblocking(true).ok();
                        }
                    }
                }
            }
            std::thread::sleep(std::time::Duration::from_micros(500));
        }
        requests
    });
    Ok((port, stop, h))
}
