//! Reference model of an Unreal 2 query server (DESIGN.md Appendix A.6).

use crate::core::net::{Conn, Server};
use crate::core::rng::Rng;
use gamedig::protocols::unreal2::{MutatorsAndRules, Player, Players, Response, ServerInfo};

/// One wire string: the intended text plus how it is written.
#[derive(Debug, Clone)]
pub struct UStr {
    /// units as sent (may contain colour escapes and control codes)
    pub units: Vec<u16>,
    pub ucs2: bool,
    /// the sent length includes a terminating NUL unit/byte
    pub with_nul: bool,
    /// UCS-2 only: the stray 01 byte some games put between the length byte and the data (not counted in the length)
    pub extra01: bool,
}

/// Latin-1 printable characters that windows-1252 and ISO-8859-1 agree on.
fn latin1_char(rng: &mut Rng) -> u16 {
    match rng.below(3) {
        0 => rng.range(0xa0, 0xff) as u16,
        _ => rng.range(0x20, 0x7e) as u16,
    }
}

fn bmp_char(rng: &mut Rng) -> u16 {
    loop {
        let c = match rng.below(4) {
            0 => rng.range(0x20, 0x7e) as u16,
            1 => rng.range(0xa0, 0x7ff) as u16,
            2 => rng.range(0x800, 0xd7ff) as u16,
            _ => rng.range(0xe000, 0xffff) as u16,
        };
        if c != 0xfeff && c != 0xfffe {
            return c;
        }
    }
}

#[derive(Debug, Clone, Copy, PartialEq, Eq)]
pub enum Deco {
    None,
    ColourStart,
    ColourMiddle,
    ColourEnd,
    Control,
    Mixed,
}

impl UStr {
    /// `n_units`: number of text units (before decoration and NUL); `total` must stay <= 127 (UCS-2) / 127 bytes (Latin-1)
    pub fn gen(rng: &mut Rng, ucs2: bool, n_text: usize, deco: Deco, with_nul: bool) -> Self {
        let mut text: Vec<u16> = (0 .. n_text).map(|_| if ucs2 { bmp_char(rng) } else { latin1_char(rng) }).collect();
        if ucs2 && !text.is_empty() && (text[0] & 0xff) == 1 {
            text[0] = 0x41; // a first unit whose low byte is 01 is the documented ambiguity
        }
        let colour = |rng: &mut Rng| -> Vec<u16> {
            let mut v = vec![0x1b];
            for _ in 0 .. 3 {
                // a colour component may be zero where a zero does not end the string (UCS-2 units)
                v.push(if ucs2 && rng.chance(1, 4) { 0 } else { rng.range(1, 255) as u16 });
            }
            v
        };
        let mut units = Vec::new();
        match deco {
            Deco::None => units = text,
            Deco::ColourStart => {
                units = colour(rng);
                units.extend(text);
            }
            Deco::ColourMiddle => {
                let m = text.len() / 2;
                units.extend(&text[.. m]);
                units.extend(colour(rng));
                units.extend(&text[m ..]);
            }
            Deco::ColourEnd => {
                units.extend(&text);
                units.extend(colour(rng));
            }
            Deco::Control => {
                for (i, c) in text.iter().enumerate() {
                    if i % 3 == 0 {
                        units.push(rng.range(1, 0x1a) as u16);
                    }
                    units.push(*c);
                }
            }
            Deco::Mixed => {
                for c in &text {
                    match rng.below(8) {
                        0 => units.extend(colour(rng)),
                        1 => units.push(rng.range(1, 0x1a) as u16),
                        _ => {}
                    }
                    units.push(*c);
                }
            }
        }
        if ucs2 && !units.is_empty() && (units[0] & 0xff) == 1 {
            units.insert(0, 0x41);
        }
        let max = 127 - with_nul as usize;
        units.truncate(max);
        // do not leave a truncated colour escape at the end
        for back in 1 ..= 3 {
            if units.len() >= back && units[units.len() - back] == 0x1b {
                units.truncate(units.len() - back);
                break;
            }
        }
        Self { units, ucs2, with_nul, extra01: false }
    }

    pub fn encode(&self, out: &mut Vec<u8>) {
        let n = self.units.len() + self.with_nul as usize;
        if self.ucs2 {
            out.push(0x80 | n as u8);
            if self.extra01 {
                out.push(1);
            }
            for u in &self.units {
                out.extend(u.to_le_bytes());
            }
            if self.with_nul {
                out.extend([0, 0]);
            }
        } else {
            out.push(n as u8);
            for u in &self.units {
                out.push(*u as u8);
            }
            if self.with_nul {
                out.push(0);
            }
        }
    }

    /// the text the API must return: colour escapes (ESC + 3) and control codes 01..1a removed
    pub fn expected(&self) -> String {
        let mut out = String::new();
        let mut skip = 0;
        for u in &self.units {
            if *u == 0x1b {
                skip = 3;
                continue;
            }
            if skip > 0 {
                skip -= 1;
                continue;
            }
            if (1 ..= 0x1a).contains(u) {
                continue;
            }
            out.push(char::from_u32(*u as u32).unwrap_or('\u{fffd}'));
        }
        out
    }

    pub fn plain(rng: &mut Rng, max: usize) -> Self {
        let ucs2 = rng.chance(1, 3);
        let n = match rng.below(5) {
            0 => 0,
            1 => 1,
            _ => rng.usize(0, max),
        };
        let deco = *rng.pick(&[Deco::None, Deco::None, Deco::None, Deco::ColourStart, Deco::ColourMiddle, Deco::ColourEnd, Deco::Control, Deco::Mixed]);
        // a Latin-1 string always carries its NUL (length 0 means nothing follows)
        let with_nul = if ucs2 { rng.bool() } else { true };
        let mut s = Self::gen(rng, ucs2, n, deco, with_nul);
        if !ucs2 && s.units.is_empty() && rng.bool() {
            s.with_nul = false; // length byte 0
        }
        if ucs2 && s.units.is_empty() {
            // a UCS-2 string of zero units (length byte 0x80) would make the reader's "stray 01" check look at the
            // next field; real servers send empty strings as Latin-1
            s.with_nul = true;
        }
        // the stray 01 of some games (the reader documents that it skips it): only where data follows it
        if ucs2 && rng.chance(1, 4) {
            s.extra01 = true;
        }
        s
    }

    pub fn from_text(t: &str) -> Self { Self { units: t.chars().map(|c| c as u16).collect(), ucs2: false, with_nul: true, extra01: false } }
}

#[derive(Debug, Clone)]
pub struct UPlayer {
    pub id: u32,
    pub name: UStr,
    pub ping: u32,
    pub score: i32,
    pub stats_id: u32,
}

#[derive(Debug, Clone)]
pub struct UState {
    pub server_id: u32,
    pub ip: UStr,
    pub game_port: u32,
    pub query_port: u32,
    pub name: UStr,
    pub map: UStr,
    pub game_type: UStr,
    pub num_players: u32,
    pub max_players: u32,
    pub info_trailer: Vec<u8>,
    pub rules: Vec<(UStr, UStr)>,
    pub players: Vec<UPlayer>,
}

impl UState {
    pub fn gen(rng: &mut Rng, n_players: usize, n_rules: usize) -> Self {
        let mut rules: Vec<(UStr, UStr)> = Vec::new();
        for _ in 0 .. n_rules {
            let k = match rng.below(6) {
                0 => UStr::from_text(*rng.pick(&["Mutator", "mutator", "MUTATOR"])),
                1 if !rules.is_empty() => rules[rng.below(rules.len() as u64) as usize].0.clone(), // repeated key
                2 => UStr::from_text("GamePassword"),
                // keys that merely look like the special ones are ordinary rules
                3 if rng.bool() => UStr::from_text(*rng.pick(&["MutatorCount", "Mutators", "mutatorVoting", "xMutator", "Mutator ", "GamePasswordHint", "gamepassword", "AdminName", "Mutato"])),
                _ => UStr::plain(rng, 20),
            };
            let v = if k.expected() == "GamePassword" { UStr::from_text(*rng.pick(&["True", "False", "true", "false"])) } else { UStr::plain(rng, 30) };
            rules.push((k, v));
        }
        let players: Vec<UPlayer> = (0 .. n_players)
            .map(|i| UPlayer { id: if rng.bool() { i as u32 } else { rng.b_u32() }, name: UStr::plain(rng, 24), ping: if rng.chance(1, 4) { 0 } else { rng.b_u32() }, score: rng.b_i32(), stats_id: rng.b_u32() })
            .collect();
        Self {
            server_id: rng.b_u32(),
            ip: UStr::plain(rng, 15),
            game_port: rng.b_u32(),
            query_port: rng.b_u32(),
            name: UStr::plain(rng, 60),
            map: UStr::plain(rng, 30),
            game_type: UStr::plain(rng, 20),
            // consistent servers report how many players they will list; some report more (then the client waits for silence)
            num_players: if rng.chance(3, 4) { n_players as u32 } else { n_players as u32 + rng.below(5) as u32 },
            max_players: rng.b_u32(),
            info_trailer: if rng.bool() { vec![] } else { rng.bytes(rng.clone().usize(1, 12)) },
            rules,
            players,
        }
    }

    pub fn info_datagram(&self) -> Vec<u8> {
        let mut o = vec![0x80, 0, 0, 0, 0];
        o.extend(self.server_id.to_le_bytes());
        self.ip.encode(&mut o);
        o.extend(self.game_port.to_le_bytes());
        o.extend(self.query_port.to_le_bytes());
        self.name.encode(&mut o);
        self.map.encode(&mut o);
        self.game_type.encode(&mut o);
        o.extend(self.num_players.to_le_bytes());
        o.extend(self.max_players.to_le_bytes());
        o.extend(&self.info_trailer);
        o
    }

    fn pack(items: Vec<Vec<u8>>, kind: u8, n_dgrams: usize, always_one: bool) -> Vec<Vec<u8>> {
        let total: usize = items.iter().map(Vec::len).sum();
        let limit = (total / n_dgrams.max(1) + 40).min(1000).max(60);
        let mut out: Vec<Vec<u8>> = Vec::new();
        for it in items {
            if out.last().map(|d| d.len() + it.len() > limit + 5).unwrap_or(true) {
                out.push(vec![0x80, 0, 0, 0, kind]);
            }
            out.last_mut().unwrap().extend(it);
        }
        if out.is_empty() && always_one {
            out.push(vec![0x80, 0, 0, 0, kind]);
        }
        out
    }

    pub fn rules_datagrams(&self, n: usize) -> Vec<Vec<u8>> {
        let items = self
            .rules
            .iter()
            .map(|(k, v)| {
                let mut b = Vec::new();
                k.encode(&mut b);
                v.encode(&mut b);
                b
            })
            .collect();
        Self::pack(items, 1, n, true)
    }

    pub fn players_datagrams(&self, n: usize, always_one: bool) -> Vec<Vec<u8>> {
        let items = self
            .players
            .iter()
            .map(|p| {
                let mut b = Vec::new();
                b.extend(p.id.to_le_bytes());
                p.name.encode(&mut b);
                b.extend(p.ping.to_le_bytes());
                b.extend(p.score.to_le_bytes());
                b.extend(p.stats_id.to_le_bytes());
                b
            })
            .collect();
        Self::pack(items, 2, n, always_one)
    }

    pub fn expected_rules(&self) -> MutatorsAndRules {
        let mut m = MutatorsAndRules::default();
        for (k, v) in &self.rules {
            let key = k.expected();
            if key.eq_ignore_ascii_case("mutator") {
                m.mutators.insert(v.expected());
            } else {
                m.rules.entry(key).or_default().push(v.expected());
            }
        }
        m
    }

    pub fn expected_players(&self) -> Players {
        let mut p = Players { players: vec![], bots: vec![] };
        for x in &self.players {
            let pl = Player { id: x.id, name: x.name.expected(), ping: x.ping, score: x.score, stats_id: x.stats_id };
            if x.ping == 0 {
                p.bots.push(pl);
            } else {
                p.players.push(pl);
            }
        }
        p
    }

    pub fn expected(&self, with_rules: bool, with_players: bool) -> Response {
        let rules = if with_rules { self.expected_rules() } else { MutatorsAndRules::default() };
        let password = rules.rules.get("GamePassword").map(|v| v.concat().to_lowercase() == "true").unwrap_or(false);
        Response {
            server_info: ServerInfo {
                server_id: self.server_id,
                ip: self.ip.expected(),
                game_port: self.game_port,
                query_port: self.query_port,
                name: self.name.expected(),
                map: self.map.expected(),
                game_type: self.game_type.expected(),
                num_players: self.num_players,
                max_players: self.max_players,
                password,
            },
            mutators_and_rules: rules,
            players: if with_players { self.expected_players() } else { Players { players: vec![], bots: vec![] } },
        }
    }
}

#[derive(Debug, Clone, PartialEq, Eq)]
pub enum UBehaviour {
    Answer(Vec<Vec<u8>>),
    Silent,
    SendFails,
}

/// reactive server: answers `79 00 00 00 <kind>`; per kind a behaviour per attempt (last repeats)
pub struct U2Server {
    pub plan: [Vec<UBehaviour>; 3],
    pub seen: [usize; 3],
    pub bad_requests: Vec<Vec<u8>>,
}

impl U2Server {
    pub fn new(info: Vec<u8>, rules: Vec<Vec<u8>>, players: Vec<Vec<u8>>) -> Self {
        Self { plan: [vec![UBehaviour::Answer(vec![info])], vec![UBehaviour::Answer(rules)], vec![UBehaviour::Answer(players)]], seen: [0; 3], bad_requests: vec![] }
    }
}

impl Server for U2Server {
    fn on_send(&mut self, conn: &mut Conn, data: &[u8]) -> bool {
        if data.len() == 5 && data[.. 4] == [0x79, 0, 0, 0] && data[4] < 3 {
            let k = data[4] as usize;
            let attempt = self.seen[k];
            self.seen[k] += 1;
            let b = self.plan[k][attempt.min(self.plan[k].len() - 1)].clone();
            match b {
                UBehaviour::Answer(d) => conn.reply_all(d),
                UBehaviour::Silent => {}
                UBehaviour::SendFails => return false,
            }
        } else {
            self.bad_requests.push(data.to_vec());
        }
        true
    }
}
