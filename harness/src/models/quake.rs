//! Reference model of Quake 1/2/3 status replies (DESIGN.md Appendix A.5).

use crate::core::rng::Rng;
use crate::models::gamespy::extras;
use gamedig::protocols::quake;
use std::collections::HashMap;

const Q_FORBID: &[char] = &['\\', '\n', '\u{0}'];
const NAME_FORBID: &[char] = &['\\', '\n', '\u{0}', ' ', '"'];

#[derive(Debug, Clone, Copy, PartialEq, Eq)]
pub enum Ver {
    One,
    Two,
    Three,
}

#[derive(Debug, Clone)]
pub struct QPlayer {
    pub id: u8,
    pub score: i32,
    pub time: u16,
    pub ping: u16,
    pub name: String,
    pub quoted: bool,
    pub skin: String,
    pub c1: u8,
    pub c2: u8,
    pub address: Option<String>,
    pub address_quoted: bool,
}

#[derive(Debug, Clone)]
pub struct QState {
    pub ver: Ver,
    pub name_key: &'static str,
    pub name: String,
    pub map_key: &'static str,
    pub map: String,
    pub max_key: &'static str,
    pub max: u8,
    pub version: Option<(&'static str, String)>,
    pub extras: Vec<(String, String)>,
    /// alternate spellings sent in addition to the primary one (the primary is used, these stay unused entries)
    pub alternates: Vec<(String, String)>,
    pub players: Vec<QPlayer>,
    pub trailing_newline: bool,
}

impl QState {
    pub fn gen(rng: &mut Rng, ver: Ver, n_players: usize, n_extras: usize) -> Self {
        let short = n_players > 20;
        let mut st = Self::gen_inner(rng, ver, n_players, n_extras, short);
        // a variable whose key is the empty string is a variable like any other
        if rng.chance(1, 8) && !st.extras.iter().any(|(k, _)| k.is_empty()) {
            let v = rng.text1(10, Q_FORBID);
            let at = rng.usize(0, st.extras.len());
            st.extras.insert(at, (String::new(), v));
        }
        // both spellings of a named variable: the primary one is decoded, the other is just another variable
        for (primary, alt, key) in [("hostname", "sv_hostname", st.name_key), ("mapname", "map", st.map_key), ("maxclients", "sv_maxclients", st.max_key)] {
            if key == primary && rng.chance(1, 5) {
                let v = if alt == "sv_maxclients" { rng.b_u8().to_string() } else { rng.text(10, Q_FORBID) };
                st.alternates.push((alt.to_string(), v));
            }
        }
        if let Some(("version", _)) = st.version {
            if rng.chance(1, 5) {
                let v = rng.text(10, Q_FORBID);
                st.alternates.push(("*version".to_string(), v));
            }
        }
        st
    }

    fn gen_inner(rng: &mut Rng, ver: Ver, n_players: usize, n_extras: usize, short: bool) -> Self {
        Self {
            ver,
            name_key: if rng.bool() { "hostname" } else { "sv_hostname" },
            name: rng.text(30, Q_FORBID),
            map_key: if rng.bool() { "mapname" } else { "map" },
            map: rng.text(16, Q_FORBID),
            max_key: if rng.bool() { "maxclients" } else { "sv_maxclients" },
            max: rng.b_u8(),
            version: rng.bool().then(|| (if rng.bool() { "version" } else { "*version" }, rng.text(20, Q_FORBID))),
            extras: extras(rng, n_extras, Q_FORBID).into_iter().filter(|(k, _)| !["map", "version", "*version", "sv_hostname", "sv_maxclients", "maxclients"].contains(&k.as_str())).collect(),
            alternates: vec![],
            players: (0 .. n_players)
                .map(|_| {
                    let name = rng.text(if short { 4 } else { 16 }, NAME_FORBID);
                    let quoted = name.is_empty() || rng.chance(3, 4);
                    QPlayer {
                        id: rng.b_u8(),
                        score: if ver == Ver::One { rng.b_u16() as i32 } else { rng.b_i32() },
                        time: rng.b_u16(),
                        ping: rng.b_u16(),
                        name,
                        quoted,
                        skin: rng.text(if short { 2 } else { 8 }, NAME_FORBID),
                        c1: rng.b_u8(),
                        c2: rng.b_u8(),
                        address: (ver != Ver::One && rng.chance(1, 3)).then(|| match rng.below(4) {
                            // the optional last field is whatever the server puts there: a team number, a port, ...
                            0 => rng.below(4).to_string(),
                            1 => format!("-{}", rng.below(70000)),
                            _ => format!("{}.{}.{}.{}:{}", rng.u8(), rng.u8(), rng.u8(), rng.u8(), rng.below(65536)),
                        }),
                        address_quoted: rng.chance(2, 3),
                    }
                })
                .collect(),
            trailing_newline: rng.chance(3, 4),
        }
    }

    pub fn pairs(&self) -> Vec<(String, String)> {
        let mut kv = vec![(self.name_key.to_string(), self.name.clone()), (self.map_key.to_string(), self.map.clone()), (self.max_key.to_string(), self.max.to_string())];
        if let Some((k, v)) = &self.version {
            kv.push((k.to_string(), v.clone()));
        }
        kv.extend(self.extras.iter().cloned());
        kv.extend(self.alternates.iter().cloned());
        kv
    }

    pub fn request(&self) -> Vec<u8> {
        let mut r = vec![0xff, 0xff, 0xff, 0xff];
        r.extend(if self.ver == Ver::Three { &b"getstatus"[..] } else { &b"status"[..] });
        r.push(0);
        r
    }

    pub fn encode(&self, rng: &mut Rng) -> Vec<u8> {
        let mut o = vec![0xff, 0xff, 0xff, 0xff];
        o.extend(match self.ver {
            Ver::One => &b"n"[..],
            Ver::Two => &b"print\n"[..],
            Ver::Three => &b"statusResponse\n"[..],
        });
        let mut kv = self.pairs();
        if rng.bool() {
            rng.shuffle(&mut kv);
        }
        for (k, v) in kv {
            o.push(b'\\');
            o.extend(k.bytes());
            o.push(b'\\');
            o.extend(v.bytes());
        }
        o.push(b'\n');
        let n = self.players.len();
        for (i, p) in self.players.iter().enumerate() {
            let q = |s: &str, quoted: bool| if quoted { format!("\"{s}\"") } else { s.to_string() };
            let line = match self.ver {
                Ver::One => format!("{} {} {} {} {} {} {} {}", p.id, p.score, p.time, p.ping, q(&p.name, p.quoted), q(&p.skin, true), p.c1, p.c2),
                _ => match &p.address {
                    Some(a) => format!("{} {} {} {}", p.score, p.ping, q(&p.name, p.quoted), q(a, p.address_quoted)),
                    None => format!("{} {} {}", p.score, p.ping, q(&p.name, p.quoted)),
                },
            };
            o.extend(line.bytes());
            if i + 1 < n || self.trailing_newline {
                o.push(b'\n');
            }
        }
        o
    }

    fn unused(&self) -> HashMap<String, String> {
        let mut consumed = vec![self.name_key, self.map_key, self.max_key];
        if let Some((k, _)) = &self.version {
            consumed.push(k);
        }
        self.pairs().into_iter().filter(|(k, _)| !consumed.contains(&k.as_str())).collect()
    }

    pub fn expected_one(&self) -> quake::Response<quake::one::Player> {
        quake::Response {
            name: self.name.clone(),
            map: self.map.clone(),
            players: self.players.iter().map(|p| quake::one::Player { id: p.id, score: p.score as u16, time: p.time, ping: p.ping, name: p.name.clone(), skin: p.skin.clone(), color_primary: p.c1, color_secondary: p.c2 }).collect(),
            players_online: self.players.len() as u8,
            players_maximum: self.max,
            game_version: self.version.as_ref().map(|v| v.1.clone()),
            unused_entries: self.unused(),
        }
    }

    pub fn expected_two(&self) -> quake::Response<quake::two::Player> {
        quake::Response {
            name: self.name.clone(),
            map: self.map.clone(),
            players: self.players.iter().map(|p| quake::two::Player { score: p.score, ping: p.ping, name: p.name.clone(), address: p.address.clone() }).collect(),
            players_online: self.players.len() as u8,
            players_maximum: self.max,
            game_version: self.version.as_ref().map(|v| v.1.clone()),
            unused_entries: self.unused(),
        }
    }
}
