//! Reference models of the five Minecraft status variants (DESIGN.md Appendix A.7).

use crate::core::net::{Conn, Server};
use crate::core::rng::Rng;
use gamedig::games::minecraft::{BedrockResponse, GameMode, JavaResponse, LegacyGroup, Player, Server as McServer};
use gamedig::verif_hook::Kind;
use serde_json::{json, Value};

pub fn varint(v: i32) -> Vec<u8> {
    let mut x = v as u32;
    let mut out = Vec::new();
    loop {
        let b = (x & 0x7f) as u8;
        x >>= 7;
        if x == 0 {
            out.push(b);
            return out;
        }
        out.push(b | 0x80);
    }
}

/// JSON string literal with a random choice of escape forms (all legal JSON)
pub fn json_string(rng: &mut Rng, s: &str) -> String {
    let mut o = String::from("\"");
    for c in s.chars() {
        match c {
            '"' => o.push_str("\\\""),
            '\\' => o.push_str("\\\\"),
            '\n' => o.push_str("\\n"),
            '\r' => o.push_str("\\r"),
            '\t' => o.push_str("\\t"),
            c if (c as u32) < 0x20 => o.push_str(&format!("\\u{:04x}", c as u32)),
            '/' if rng.bool() => o.push_str("\\/"),
            c if rng.chance(1, 10) => {
                let mut buf = [0u16; 2];
                for u in c.encode_utf16(&mut buf) {
                    o.push_str(&format!("\\u{:04X}", u));
                }
            }
            c => o.push(c),
        }
    }
    o.push('"');
    o
}

#[derive(Debug, Clone)]
pub struct JavaState {
    pub version_name: String,
    pub protocol: i32,
    pub max: u32,
    pub online: u32,
    /// None = member absent; Some(None) = explicit null
    pub sample: Option<Option<Vec<(String, String)>>>,
    /// description as a JSON value (string or chat object); None = absent
    pub description: Option<Value>,
    pub favicon: Option<String>,
    pub previews_chat: Option<bool>,
    pub enforces_secure_chat: Option<bool>,
    pub extra_members: bool,
    pub pong: bool,
}

impl JavaState {
    pub fn gen(rng: &mut Rng) -> Self {
        let n_sample = match rng.below(5) {
            0 => 0,
            1 => 1,
            _ => rng.usize(0, 12),
        };
        let description = match rng.below(5) {
            0 => None,
            1 | 2 => Some(Value::String(rng.text(60, &[]))),
            3 => Some(json!({"text": rng.text(30, &[]), "bold": rng.bool(), "extra": [{"text": rng.text(10, &[]), "color": "red"}]})),
            _ => Some(json!({"translate": rng.text(10, &[]), "with": [rng.below(1000), rng.text(5, &[])]})),
        };
        Self {
            version_name: rng.text(20, &[]),
            protocol: rng.b_i32(),
            max: rng.b_u32(),
            online: rng.b_u32(),
            sample: match rng.below(6) {
                0 => None,
                1 => Some(None),
                _ => Some(Some((0 .. n_sample).map(|_| (rng.text(16, &[]), match rng.below(8) {
                    // ids that look special: the nil and the all-ones UUID (servers use them for hover text lines), an empty id
                    0 => "00000000-0000-0000-0000-000000000000".to_string(),
                    1 => "ffffffff-ffff-ffff-ffff-ffffffffffff".to_string(),
                    2 => String::new(),
                    _ => format!("{:08x}-{:04x}-{:04x}-{:04x}-{:012x}", rng.u32(), rng.u32() & 0xffff, rng.u32() & 0xffff, rng.u32() & 0xffff, rng.next_u64() & 0xffff_ffff_ffff),
                })).collect())),
            },
            description,
            favicon: rng.bool().then(|| format!("data:image/png;base64,{}", rng.ident(40))),
            previews_chat: rng.bool().then(|| rng.bool()),
            enforces_secure_chat: rng.bool().then(|| rng.bool()),
            extra_members: rng.bool(),
            pong: rng.bool(),
        }
    }

    pub fn json_text(&self, rng: &mut Rng) -> String {
        let mut members: Vec<String> = Vec::new();
        members.push(format!("\"version\":{{\"name\":{},\"protocol\":{}}}", json_string(rng, &self.version_name), self.protocol));
        let mut players = format!("\"max\":{},\"online\":{}", self.max, self.online);
        match &self.sample {
            None => {}
            Some(None) => players.push_str(",\"sample\":null"),
            Some(Some(v)) => {
                let items: Vec<String> = v.iter().map(|(n, i)| format!("{{\"name\":{},\"id\":{}}}", json_string(rng, n), json_string(rng, i))).collect();
                players.push_str(&format!(",\"sample\":[{}]", items.join(",")));
            }
        }
        members.push(format!("\"players\":{{{players}}}"));
        if let Some(d) = &self.description {
            members.push(format!("\"description\":{}", match d {
                Value::String(s) => json_string(rng, s),
                other => other.to_string(),
            }));
        }
        if let Some(f) = &self.favicon {
            members.push(format!("\"favicon\":{}", json_string(rng, f)));
        }
        if let Some(b) = self.previews_chat {
            members.push(format!("\"previewsChat\":{b}"));
        }
        if let Some(b) = self.enforces_secure_chat {
            members.push(format!("\"enforcesSecureChat\":{b}"));
        }
        if self.extra_members {
            members.push("\"modinfo\":{\"type\":\"FML\",\"modList\":[]}".to_string());
        }
        if rng.bool() {
            rng.shuffle(&mut members);
        }
        let ws = if rng.chance(1, 4) { " " } else { "" };
        format!("{{{ws}{}{ws}}}", members.join(&format!(",{ws}")))
    }

    /// the bytes the server writes before closing
    pub fn stream(&self, rng: &mut Rng) -> Vec<u8> {
        let js = self.json_text(rng);
        let mut body = vec![0x00];
        body.extend(varint(js.len() as i32));
        body.extend(js.bytes());
        let mut out = varint(body.len() as i32);
        out.extend(body);
        if self.pong {
            out.extend([0x09, 0x01, 1, 2, 3, 4, 5, 6, 7, 8]);
        }
        out
    }

    /// expected response; `description` is compared as JSON
    pub fn expected(&self) -> (JavaResponse, Value) {
        let d = self.description.clone().unwrap_or(Value::Null);
        (
            JavaResponse {
                game_version: self.version_name.clone(),
                protocol_version: self.protocol,
                players_maximum: self.max,
                players_online: self.online,
                players: self.sample.clone().flatten().map(|v| v.into_iter().map(|(name, id)| Player { name, id }).collect()),
                description: String::new(),
                favicon: self.favicon.clone(),
                previews_chat: self.previews_chat,
                enforces_secure_chat: self.enforces_secure_chat,
                server_type: McServer::Java,
            },
            d,
        )
    }
}

pub const BEDROCK_PING: [u8; 33] = [
    0x01, 0x11, 0x22, 0x33, 0x44, 0x55, 0x66, 0x77, 0x88, 0x00, 0xff, 0xff, 0x00, 0xfe, 0xfe, 0xfe, 0xfe, 0xfd, 0xfd, 0xfd, 0xfd, 0x12, 0x34, 0x56, 0x78, 0x00, 0x00, 0x00, 0x00, 0x00, 0x00, 0x00, 0x00,
];
pub const RAKNET_MAGIC: [u8; 16] = [0x00, 0xff, 0xff, 0x00, 0xfe, 0xfe, 0xfe, 0xfe, 0xfd, 0xfd, 0xfd, 0xfd, 0x12, 0x34, 0x56, 0x78];

#[derive(Debug, Clone)]
pub struct BedrockState {
    pub fields: Vec<String>,
    pub guid: [u8; 8],
    pub known_mode: bool,
}

impl BedrockState {
    pub fn gen(rng: &mut Rng) -> Self {
        let forbid = &[';', '\u{0}'];
        let n = rng.usize(6, 12);
        let mut f = vec![
            (if rng.bool() { "MCPE" } else { "MCEE" }).to_string(),
            rng.text(30, forbid),
            rng.below(1000).to_string(),
            rng.text(10, forbid),
            rng.b_u32().to_string(),
            rng.b_u32().to_string(),
        ];
        let mut known_mode = true;
        if n > 6 {
            f.push(rng.b_u64().to_string());
        }
        if n > 7 {
            f.push(rng.text(16, forbid));
        }
        if n > 8 {
            if rng.chance(1, 12) {
                known_mode = false;
                f.push(rng.text1(8, forbid));
            } else {
                f.push(rng.pick(&["Survival", "Creative", "Hardcore", "Spectator", "Adventure"]).to_string());
            }
        }
        while f.len() < n {
            f.push(rng.text(6, forbid));
        }
        let mut guid = [0u8; 8];
        for g in guid.iter_mut() {
            *g = rng.u8();
        }
        Self { fields: f, guid, known_mode }
    }

    pub fn datagram(&self) -> Vec<u8> {
        let s = self.fields.join(";");
        let mut o = vec![0x1c, 0x11, 0x22, 0x33, 0x44, 0x55, 0x66, 0x77, 0x88];
        o.extend(self.guid);
        o.extend(RAKNET_MAGIC);
        o.extend((s.len() as u16).to_be_bytes());
        o.extend(s.bytes());
        o
    }

    pub fn expected(&self) -> BedrockResponse {
        let f = &self.fields;
        BedrockResponse {
            edition: f[0].clone(),
            name: f[1].clone(),
            version_name: f[3].clone(),
            protocol_version: f[2].clone(),
            players_maximum: f[5].parse().unwrap(),
            players_online: f[4].parse().unwrap(),
            id: f.get(6).cloned(),
            map: f.get(7).cloned(),
            game_mode: f.get(8).map(|m| match m.as_str() {
                "Survival" => GameMode::Survival,
                "Creative" => GameMode::Creative,
                "Hardcore" => GameMode::Hardcore,
                "Spectator" => GameMode::Spectator,
                _ => GameMode::Adventure,
            }),
            server_type: McServer::Bedrock,
        }
    }

    pub fn expected_as_java(&self) -> JavaResponse {
        let b = self.expected();
        JavaResponse { game_version: b.version_name, protocol_version: 0, players_maximum: b.players_maximum, players_online: b.players_online, players: None, description: b.name, favicon: None, previews_chat: None, enforces_secure_chat: None, server_type: McServer::Bedrock }
    }
}

#[derive(Debug, Clone)]
pub struct LegacyState {
    pub group: LegacyGroup,
    pub protocol: i32,
    pub version: String,
    pub motd: String,
    pub online: u32,
    pub max: u32,
}

impl LegacyState {
    pub fn gen(rng: &mut Rng, group: LegacyGroup) -> Self {
        let forbid: &[char] = if group == LegacyGroup::V1_6 { &['\u{0}'] } else { &['\u{0}', '§'] };
        Self { group, protocol: rng.b_i32(), version: rng.text(12, &['\u{0}']), motd: rng.text(40, forbid), online: rng.b_u32(), max: rng.b_u32() }
    }

    pub fn stream(&self) -> Vec<u8> {
        let text = match self.group {
            LegacyGroup::V1_6 => format!("§1\0{}\0{}\0{}\0{}\0{}", self.protocol, self.version, self.motd, self.online, self.max),
            _ => format!("{}§{}§{}", self.motd, self.online, self.max),
        };
        let units: Vec<u16> = text.encode_utf16().collect();
        let mut o = vec![0xff];
        o.extend((units.len() as u16).to_be_bytes());
        for u in units {
            o.extend(u.to_be_bytes());
        }
        o
    }

    pub fn expected(&self) -> JavaResponse {
        let (game_version, protocol_version) = match self.group {
            LegacyGroup::V1_6 => (self.version.clone(), self.protocol),
            LegacyGroup::V1_4 => ("1.4+".to_string(), -1),
            LegacyGroup::VB1_8 => ("Beta 1.8+".to_string(), -1),
        };
        JavaResponse { game_version, protocol_version, players_maximum: self.max, players_online: self.online, players: None, description: self.motd.clone(), favicon: None, previews_chat: None, enforces_secure_chat: None, server_type: McServer::Legacy(self.group) }
    }

    pub fn request(group: LegacyGroup) -> Vec<u8> {
        match group {
            LegacyGroup::V1_6 => vec![0xfe, 0x01, 0xfa, 0x00, 0x07, 0x00, 0x47, 0x00, 0x61, 0x00, 0x6D, 0x00, 0x65, 0x00, 0x44, 0x00, 0x69, 0x00, 0x67],
            LegacyGroup::V1_4 => vec![0xfe, 0x01],
            LegacyGroup::VB1_8 => vec![0xfe],
        }
    }
}

#[derive(Debug, Clone, Copy, PartialEq, Eq, Hash)]
pub enum Variant {
    Java = 0,
    Bedrock = 1,
    L16 = 2,
    L14 = 3,
    Lb18 = 4,
}

pub const ORDER: [Variant; 5] = [Variant::Java, Variant::Bedrock, Variant::L16, Variant::L14, Variant::Lb18];

#[derive(Debug, Clone, Copy, PartialEq, Eq)]
pub enum NonAnswer {
    Silent,
    CloseEmpty,
    Garbage,
    Truncated,
    Refuse,
}

/// What a TCP connection's first bytes identify it as.
fn classify_tcp(buf: &[u8]) -> Option<Variant> {
    if buf.is_empty() {
        return None;
    }
    if buf[0] == 0xfe {
        return Some(match buf.len() {
            1 => Variant::Lb18,
            2 if buf[1] == 0x01 => Variant::L14,
            _ if buf.len() > 2 && buf[1] == 0x01 && buf[2] == 0xfa => Variant::L16,
            _ => return None,
        });
    }
    Some(Variant::Java)
}

/// A server speaking a subset of the variants; for the others it gives a hostile non-answer.
pub struct McServerModel {
    /// answer bytes per variant (None = not spoken)
    pub answers: [Option<Vec<u8>>; 5],
    pub non_answer: [NonAnswer; 5],
    /// per connection: bytes received so far
    pub inbox: Vec<Vec<u8>>,
    /// variants identified per connection, in order of first identification
    pub requests: Vec<(u64, Variant, Vec<u8>)>,
    pub tcp_connects: usize,
    /// which variant the k-th TCP connection stands for (used for refusals)
    pub tcp_slots: Vec<Variant>,
    pub garbage: Vec<u8>,
    /// what each connection was identified as when answered
    pub answered: Vec<(u64, Variant)>,
}

impl McServerModel {
    pub fn new(answers: [Option<Vec<u8>>; 5], non_answer: [NonAnswer; 5], garbage: Vec<u8>) -> Self { Self { answers, non_answer, inbox: vec![], requests: vec![], tcp_connects: 0, tcp_slots: vec![Variant::Java, Variant::L16, Variant::L14, Variant::Lb18], garbage, answered: vec![] } }

    fn react(&mut self, conn: &mut Conn, v: Variant) {
        let i = v as usize;
        match &self.answers[i] {
            Some(a) => {
                conn.queue.clear();
                conn.reply(a.clone());
                if conn.kind == Kind::Tcp {
                    conn.close();
                }
                if !self.answered.iter().any(|(c, _)| *c == conn.id) {
                    self.answered.push((conn.id, v));
                }
            }
            None => match self.non_answer[i] {
                NonAnswer::Silent | NonAnswer::Refuse => {
                    conn.queue.clear();
                    conn.closed = false;
                }
                NonAnswer::CloseEmpty => {
                    conn.queue.clear();
                    if conn.kind == Kind::Tcp {
                        conn.close();
                    }
                }
                NonAnswer::Garbage => {
                    conn.queue.clear();
                    conn.reply(self.garbage.clone());
                    if conn.kind == Kind::Tcp {
                        conn.close();
                    }
                }
                NonAnswer::Truncated => {
                    conn.queue.clear();
                    let g = self.garbage.clone();
                    conn.reply(g[.. g.len() / 2].to_vec());
                    if conn.kind == Kind::Tcp {
                        conn.close();
                    }
                }
            },
        }
    }
}

impl Server for McServerModel {
    fn on_connect(&mut self, conn: &mut Conn) -> bool {
        while self.inbox.len() <= conn.id as usize {
            self.inbox.push(Vec::new());
        }
        if conn.kind == Kind::Tcp {
            // the k-th TCP connection of an auto query is, in the documented order, java, 1.6, 1.4, b1.8
            let slot = self.tcp_slots.get(self.tcp_connects).copied();
            self.tcp_connects += 1;
            if let Some(v) = slot {
                if self.answers[v as usize].is_none() && self.non_answer[v as usize] == NonAnswer::Refuse {
                    return false;
                }
            }
        }
        true
    }

    fn on_send(&mut self, conn: &mut Conn, data: &[u8]) -> bool {
        let id = conn.id as usize;
        self.inbox[id].extend_from_slice(data);
        match conn.kind {
            Kind::Udp => {
                let v = Variant::Bedrock;
                if !self.requests.iter().any(|(c, _, _)| *c == conn.id) {
                    self.requests.push((conn.id, v, data.to_vec()));
                }
                if data == BEDROCK_PING {
                    self.react(conn, v);
                }
            }
            Kind::Tcp => {
                if let Some(v) = classify_tcp(&self.inbox[id]) {
                    let whole = self.inbox[id].clone();
                    match self.requests.iter_mut().find(|(c, _, _)| *c == conn.id) {
                        Some(r) => {
                            r.1 = v;
                            r.2 = whole;
                        }
                        None => self.requests.push((conn.id, v, whole)),
                    }
                    // (re)decide the reaction each time the identification may have changed: FE, FE 01, FE 01 FA ...
                    self.react(conn, v);
                }
            }
        }
        true
    }
}
