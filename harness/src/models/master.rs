//! Reference model of the Valve master server reply pages (DESIGN.md Appendix A.9).

use crate::core::net::{Conn, Server};
use std::net::Ipv4Addr;

pub type Addr = (Ipv4Addr, u16);

pub fn page(entries: &[Addr]) -> Vec<u8> {
    let mut o = vec![0xff, 0xff, 0xff, 0xff, 0x66, 0x0a];
    for (ip, port) in entries {
        o.extend(ip.octets());
        o.extend(port.to_be_bytes());
    }
    o
}

/// Serves page k in answer to the k-th request, whatever it says; records the requests.
pub struct PagesServer {
    pub pages: Vec<Vec<u8>>,
    pub requests: Vec<Vec<u8>>,
}

impl Server for PagesServer {
    fn on_send(&mut self, conn: &mut Conn, data: &[u8]) -> bool {
        let k = self.requests.len();
        self.requests.push(data.to_vec());
        if let Some(p) = self.pages.get(k) {
            conn.reply(p.clone());
        }
        true
    }
}
