//! gdverif — runtime-monitoring harness for rust-gamedig (see /verif/DESIGN.md).
#![allow(clippy::all)]
#![allow(dead_code)]

mod core;
mod models;
mod props;

use crate::core::framework::{batch_main, single_case_main, supervisor_main, worker_main, Check, Tier, WorkerArgs};

#[global_allocator]
static GLOBAL: crate::core::alloc::Counting = crate::core::alloc::Counting;

fn arg_val(args: &[String], name: &str) -> Option<String> {
    args.iter().position(|a| a == name).and_then(|i| args.get(i + 1).cloned())
}

fn env_seed() -> u64 { std::env::var("VERIF_SEED").ok().and_then(|s| s.trim().parse::<i64>().ok()).map(|v| v as u64).unwrap_or(20261001) }

fn usage() -> ! {
    eprintln!("usage: gdverif run <Cxx> [--tier quick|thorough] | worker ... | case <Cxx> --tier T --seed S --idx I | replay <file> | list");
    std::process::exit(2)
}

fn main() {
    let args: Vec<String> = std::env::args().skip(1).collect();
    if args.is_empty() {
        usage();
    }
    match args[0].as_str() {
        "list" => {
            for id in props::ALL {
                println!("{id}");
            }
        }
        "run" => {
            let id = args.get(1).cloned().unwrap_or_else(|| usage());
            let tier = arg_val(&args, "--tier").or_else(|| std::env::var("VERIF_TIER").ok()).and_then(|s| Tier::parse(&s)).unwrap_or(Tier::Quick);
            let mut check: Box<dyn Check> = props::make(&id).unwrap_or_else(|| usage());
            let r = supervisor_main(check.as_mut(), tier, env_seed());
            std::process::exit(r.exit);
        }
        "worker" => {
            let id = args.get(1).cloned().unwrap_or_else(|| usage());
            let mut check: Box<dyn Check> = props::make(&id).unwrap_or_else(|| usage());
            let a = WorkerArgs {
                tier: arg_val(&args, "--tier").and_then(|s| Tier::parse(&s)).unwrap(),
                seed: arg_val(&args, "--seed").unwrap().parse().unwrap(),
                shard: arg_val(&args, "--shard").unwrap().parse().unwrap(),
                nshards: arg_val(&args, "--nshards").unwrap().parse().unwrap(),
                start: arg_val(&args, "--start").unwrap().parse().unwrap(),
                skip: arg_val(&args, "--skip").map(|s| s.split(',').filter_map(|x| x.parse().ok()).collect()).unwrap_or_default(),
                dir: arg_val(&args, "--dir").unwrap().into(),
                resume: args.iter().any(|a| a == "--resume"),
                deadline_s: arg_val(&args, "--deadline").and_then(|s| s.parse().ok()).unwrap_or(3600),
            };
            std::process::exit(worker_main(check.as_mut(), a));
        }
        "case" => {
            let id = args.get(1).cloned().unwrap_or_else(|| usage());
            let mut check: Box<dyn Check> = props::make(&id).unwrap_or_else(|| usage());
            let tier = arg_val(&args, "--tier").and_then(|s| Tier::parse(&s)).unwrap_or(Tier::Quick);
            let seed = arg_val(&args, "--seed").and_then(|s| s.parse().ok()).unwrap_or_else(env_seed);
            let idx = arg_val(&args, "--idx").and_then(|s| s.parse().ok()).unwrap_or(0);
            std::process::exit(single_case_main(check.as_mut(), tier, seed, idx));
        }
        "miri-batch" => {
            let id = args.get(1).cloned().unwrap_or_else(|| usage());
            let mut check: Box<dyn Check> = props::make(&id).unwrap_or_else(|| usage());
            let tier = arg_val(&args, "--tier").and_then(|s| Tier::parse(&s)).unwrap_or(Tier::Thorough);
            let seed = arg_val(&args, "--seed").and_then(|s| s.parse().ok()).unwrap_or_else(env_seed);
            let from = arg_val(&args, "--from").and_then(|s| s.parse().ok()).unwrap_or(0);
            let count = arg_val(&args, "--count").and_then(|s| s.parse().ok()).unwrap_or(1);
            std::process::exit(batch_main(check.as_mut(), tier, seed, from, count));
        }
        "ecoprobe" => {
            std::process::exit(props::c12::ecoprobe_main(&args[1 ..]));
        }
        "sockprobe" => {
            std::process::exit(props::c12::sockprobe_main(&args[1 ..]));
        }
        "replay" => {
            let path = args.get(1).cloned().unwrap_or_else(|| usage());
            let doc: serde_json::Value = serde_json::from_slice(&std::fs::read(&path).expect("read replay file")).expect("parse replay file");
            let id = doc["property"].as_str().unwrap_or_else(|| usage()).to_string();
            let tier = doc["tier"].as_str().and_then(Tier::parse).unwrap_or(Tier::Quick);
            let seed = doc["seed"].as_u64().unwrap_or_else(env_seed);
            let idx = doc["idx"].as_u64().unwrap_or(0);
            println!("replaying {} signature [{}]", id, doc["signature"].as_str().unwrap_or("?"));
            let mut check: Box<dyn Check> = props::make(&id).unwrap_or_else(|| usage());
            std::process::exit(single_case_main(check.as_mut(), tier, seed, idx));
        }
        _ => usage(),
    }
}
