//! M-alloc: a counting global allocator with per-thread counters.
//!
//! Requests are served by `System`. A request above `HARD_CEILING` is reported with a raw
//! write(2) to the journal fd (no allocation inside the allocator) and then refused, which makes
//! the Rust runtime abort the worker; the supervisor reads the size from the journal.

use std::alloc::{GlobalAlloc, Layout, System};
use std::cell::Cell;
use std::sync::atomic::{AtomicI32, AtomicU64, Ordering};

pub const HARD_CEILING: usize = 1 << 30; // 1 GiB: far above the property's 16 MiB per request

pub static JOURNAL_FD: AtomicI32 = AtomicI32::new(-1);
/// process-wide live bytes (for reporting only)
pub static PROCESS_LIVE: AtomicU64 = AtomicU64::new(0);

thread_local! {
    static ENABLED: Cell<bool> = const { Cell::new(false) };
    static LIVE: Cell<i64> = const { Cell::new(0) };
    static PEAK: Cell<i64> = const { Cell::new(0) };
    static LARGEST: Cell<usize> = const { Cell::new(0) };
    static REQUESTS: Cell<u64> = const { Cell::new(0) };
    static REQUEST_CAP: Cell<u64> = const { Cell::new(u64::MAX) };
    static CAP_HIT: Cell<bool> = const { Cell::new(false) };
}

pub struct Counting;

#[inline]
fn on_alloc(size: usize) {
    let _ = ENABLED.try_with(|e| {
        if e.get() {
            LIVE.with(|l| {
                let v = l.get() + size as i64;
                l.set(v);
                PEAK.with(|p| {
                    if v > p.get() {
                        p.set(v)
                    }
                });
            });
            LARGEST.with(|l| {
                if size > l.get() {
                    l.set(size)
                }
            });
            REQUESTS.with(|r| r.set(r.get() + 1));
        }
    });
}

#[inline]
fn on_free(size: usize) {
    let _ = ENABLED.try_with(|e| {
        if e.get() {
            LIVE.with(|l| l.set(l.get() - size as i64));
        }
    });
}

fn report_oversize(size: usize) {
    let fd = JOURNAL_FD.load(Ordering::Relaxed);
    if fd >= 0 {
        // format "OVERSIZE <decimal>\n" without allocating
        let mut buf = [0u8; 40];
        let prefix = b"OVERSIZE ";
        buf[.. prefix.len()].copy_from_slice(prefix);
        let mut digits = [0u8; 24];
        let mut n = size;
        let mut i = 0;
        if n == 0 {
            digits[0] = b'0';
            i = 1;
        }
        while n > 0 {
            digits[i] = b'0' + (n % 10) as u8;
            n /= 10;
            i += 1;
        }
        let mut pos = prefix.len();
        while i > 0 {
            i -= 1;
            buf[pos] = digits[i];
            pos += 1;
        }
        buf[pos] = b'\n';
        pos += 1;
        unsafe {
            libc::write(fd, buf.as_ptr() as *const libc::c_void, pos);
        }
    }
}

unsafe impl GlobalAlloc for Counting {
    unsafe fn alloc(&self, layout: Layout) -> *mut u8 {
        if layout.size() > HARD_CEILING {
            on_alloc(layout.size());
            report_oversize(layout.size());
            return std::ptr::null_mut();
        }
        let p = System.alloc(layout);
        if !p.is_null() {
            on_alloc(layout.size());
        }
        p
    }

    unsafe fn alloc_zeroed(&self, layout: Layout) -> *mut u8 {
        if layout.size() > HARD_CEILING {
            on_alloc(layout.size());
            report_oversize(layout.size());
            return std::ptr::null_mut();
        }
        let p = System.alloc_zeroed(layout);
        if !p.is_null() {
            on_alloc(layout.size());
        }
        p
    }

    unsafe fn dealloc(&self, ptr: *mut u8, layout: Layout) {
        System.dealloc(ptr, layout);
        on_free(layout.size());
    }

    unsafe fn realloc(&self, ptr: *mut u8, layout: Layout, new_size: usize) -> *mut u8 {
        if new_size > HARD_CEILING {
            on_alloc(new_size);
            report_oversize(new_size);
            return std::ptr::null_mut();
        }
        let p = System.realloc(ptr, layout, new_size);
        if !p.is_null() {
            on_free(layout.size());
            on_alloc(new_size);
        }
        p
    }
}

#[derive(Debug, Clone, Copy, Default)]
pub struct AllocStats {
    /// peak of (live - live at begin), bytes
    pub peak: u64,
    pub largest: u64,
    pub requests: u64,
}

/// Start measuring on this thread (relative to now).
pub fn begin() {
    LIVE.with(|l| l.set(0));
    PEAK.with(|p| p.set(0));
    LARGEST.with(|l| l.set(0));
    REQUESTS.with(|r| r.set(0));
    ENABLED.with(|e| e.set(true));
}

pub fn end() -> AllocStats {
    ENABLED.with(|e| e.set(false));
    AllocStats { peak: PEAK.with(|p| p.get()).max(0) as u64, largest: LARGEST.with(|l| l.get()) as u64, requests: REQUESTS.with(|r| r.get()) }
}
