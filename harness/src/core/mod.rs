pub mod alloc;
pub mod framework;
pub mod monitor;
pub mod net;
pub mod proc;
pub mod real;
pub mod rng;
