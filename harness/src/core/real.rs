//! Serve any scripted `Server` over real loopback sockets (used by C12's fidelity self-test and by C19).

use super::net::{Conn, Server};
use gamedig::verif_hook::Kind;
use std::collections::{HashMap, VecDeque};
use std::io::{Read, Write};
use std::net::{SocketAddr, TcpListener, UdpSocket};
use std::sync::atomic::{AtomicBool, Ordering};
use std::sync::{Arc, Mutex};
use std::thread::JoinHandle;
use std::time::Duration;

pub type SendServer = Box<dyn Server + Send>;

pub struct Running {
    pub addr: SocketAddr,
    stop: Arc<AtomicBool>,
    handle: Option<JoinHandle<()>>,
    /// (source, bytes) of everything the server received, in order
    pub received: Arc<Mutex<Vec<(SocketAddr, Vec<u8>)>>>,
}

impl Running {
    pub fn stop(mut self) -> Vec<(SocketAddr, Vec<u8>)> {
        self.stop.store(true, Ordering::SeqCst);
        if let Some(h) = self.handle.take() {
            let _ = h.join();
        }
        let r = self.received.lock().unwrap().clone();
        r
    }
}

impl Drop for Running {
    fn drop(&mut self) {
        self.stop.store(true, Ordering::SeqCst);
        if let Some(h) = self.handle.take() {
            let _ = h.join();
        }
    }
}

fn new_conn(id: u64, kind: Kind, addr: SocketAddr) -> Conn { Conn { id, kind, addr, timeouts: None, queue: VecDeque::new(), closed: false, sends: 0, recvs: 0 } }

/// Both a UDP socket and a TCP listener on the same port of `ip` (ephemeral), driving one server.
pub fn serve(ip: std::net::IpAddr, server: SendServer) -> std::io::Result<Running> {
    // find a port free for both
    let mut pair = None;
    for _ in 0 .. 50 {
        let l = TcpListener::bind(SocketAddr::new(ip, 0))?;
        let port = l.local_addr()?.port();
        if let Ok(u) = UdpSocket::bind(SocketAddr::new(ip, port)) {
            pair = Some((l, u, port));
            break;
        }
    }
    let (listener, udp, port) = pair.ok_or_else(|| std::io::Error::new(std::io::ErrorKind::AddrInUse, "no common free port"))?;
    listener.set_nonblocking(true)?;
    udp.set_read_timeout(Some(Duration::from_millis(2)))?;
    let stop = Arc::new(AtomicBool::new(false));
    let received = Arc::new(Mutex::new(Vec::new()));
    let (stop2, rec2) = (stop.clone(), received.clone());
    let handle = std::thread::spawn(move || {
        let mut server = server;
        let mut udp_conns: HashMap<SocketAddr, Conn> = HashMap::new();
        let mut tcp_conns: Vec<(std::net::TcpStream, Conn, SocketAddr, bool)> = Vec::new();
        let mut next_id = 0u64;
        let mut buf = vec![0u8; 70_000];
        while !stop2.load(Ordering::SeqCst) {
            // UDP
            if let Ok((n, src)) = udp.recv_from(&mut buf) {
                let data = buf[.. n].to_vec();
                rec2.lock().unwrap().push((src, data.clone()));
                let conn = udp_conns.entry(src).or_insert_with(|| {
                    let mut c = new_conn(next_id, Kind::Udp, src);
                    next_id += 1;
                    server.on_connect(&mut c);
                    c
                });
                let ok = server.on_send(conn, &data);
                if ok {
                    while let Some(d) = conn.queue.pop_front() {
                        let _ = udp.send_to(&d, src);
                    }
                } else {
                    conn.queue.clear();
                }
            }
            // TCP accept
            while let Ok((stream, src)) = listener.accept() {
                stream.set_nonblocking(true).ok();
                stream.set_nodelay(true).ok();
                let mut c = new_conn(next_id, Kind::Tcp, src);
                next_id += 1;
                let keep = server.on_connect(&mut c);
                if keep {
                    tcp_conns.push((stream, c, src, false));
                } // else: dropped at once (closest thing to a refusal after accept)
            }
            for (stream, conn, src, done) in tcp_conns.iter_mut() {
                if *done {
                    continue;
                }
                match stream.read(&mut buf) {
                    Ok(0) => *done = true,
                    Ok(n) => {
                        let data = buf[.. n].to_vec();
                        rec2.lock().unwrap().push((*src, data.clone()));
                        server.on_send(conn, &data);
                    }
                    Err(_) => {}
                }
                // flush what the server queued
                if !conn.queue.is_empty() {
                    stream.set_nonblocking(false).ok();
                    while let Some(d) = conn.queue.pop_front() {
                        let _ = stream.write_all(&d);
                    }
                    let _ = stream.flush();
                    stream.set_nonblocking(true).ok();
                }
                if conn.closed {
                    let _ = stream.shutdown(std::net::Shutdown::Write);
                    conn.closed = false;
                    *done = false; // keep reading until the client closes
                }
            }
            tcp_conns.retain(|c| !c.3);
        }
    });
    Ok(Running { addr: SocketAddr::new(ip, port), stop, handle: Some(handle), received })
}
