//! Check trait, per-case context, statistics, worker loop and supervisor.

use super::alloc;
use super::rng::{hash_str, Rng};
use serde::{Deserialize, Serialize};
use serde_json::{json, Value};
use std::collections::{BTreeMap, BTreeSet, HashSet};
use std::io::Write;
use std::os::fd::AsRawFd;
use std::path::{Path, PathBuf};
use std::process::{Child, Command, Stdio};
use std::time::{Duration, Instant};

#[derive(Debug, Clone, Copy, PartialEq, Eq, Serialize, Deserialize)]
pub enum Tier {
    Quick,
    Thorough,
}

impl Tier {
    pub fn name(self) -> &'static str {
        match self {
            Tier::Quick => "quick",
            Tier::Thorough => "thorough",
        }
    }
    pub fn parse(s: &str) -> Option<Self> {
        match s {
            "quick" => Some(Tier::Quick),
            "thorough" => Some(Tier::Thorough),
            _ => None,
        }
    }
    pub fn pick<T>(self, quick: T, thorough: T) -> T {
        match self {
            Tier::Quick => quick,
            Tier::Thorough => thorough,
        }
    }
}

#[derive(Debug, Clone, Serialize, Deserialize)]
pub struct Violation {
    pub sig: String,
    pub idx: u64,
    pub detail: Value,
}

#[derive(Debug, Default, Clone, Serialize, Deserialize)]
pub struct Stats {
    pub evaluations: u64,
    pub nontrivial: u64,
    pub counters: BTreeMap<String, u64>,
    pub observe: BTreeMap<String, u64>,
    pub inconclusive: BTreeMap<String, u64>,
    pub sig_counts: BTreeMap<String, u64>,
    pub violations: Vec<Violation>,
    pub samples: Vec<Value>,
    pub maxima: BTreeMap<String, (u64, Value)>,
    /// coarse shape classes seen (strings, small)
    pub shapes: BTreeMap<String, u64>,
    #[serde(skip)]
    pub hashes: Vec<u64>,
}

impl Stats {
    pub fn merge(&mut self, o: Stats) {
        self.evaluations += o.evaluations;
        self.nontrivial += o.nontrivial;
        for (k, v) in o.counters {
            *self.counters.entry(k).or_default() += v;
        }
        for (k, v) in o.observe {
            *self.observe.entry(k).or_default() += v;
        }
        for (k, v) in o.inconclusive {
            *self.inconclusive.entry(k).or_default() += v;
        }
        for (k, v) in o.sig_counts {
            *self.sig_counts.entry(k).or_default() += v;
        }
        for (k, v) in o.shapes {
            *self.shapes.entry(k).or_default() += v;
        }
        self.violations.extend(o.violations);
        for s in o.samples {
            if self.samples.len() < 8 {
                self.samples.push(s);
            }
        }
        for (k, (v, w)) in o.maxima {
            let e = self.maxima.entry(k).or_insert((0, Value::Null));
            if v >= e.0 {
                *e = (v, w);
            }
        }
        self.hashes.extend(o.hashes);
    }
}

/// Per-case context handed to a check.
pub struct Cx<'a> {
    pub rng: Rng,
    pub tier: Tier,
    pub seed: u64,
    pub idx: u64,
    pub replaying: bool,
    pub stats: &'a mut Stats,
}

impl<'a> Cx<'a> {
    pub fn count(&mut self, key: &str) { *self.stats.counters.entry(key.to_string()).or_default() += 1; }
    pub fn count_n(&mut self, key: &str, n: u64) { *self.stats.counters.entry(key.to_string()).or_default() += n; }
    pub fn observe(&mut self, key: &str) { *self.stats.observe.entry(key.to_string()).or_default() += 1; }
    pub fn inconclusive(&mut self, key: &str) { *self.stats.inconclusive.entry(key.to_string()).or_default() += 1; }
    pub fn shape(&mut self, key: &str) { *self.stats.shapes.entry(key.to_string()).or_default() += 1; }
    /// one execution observed
    pub fn eval(&mut self) { self.stats.evaluations += 1; }
    /// the execution was non-trivial by the check's rule; `h` identifies the case for distinctness
    pub fn nontrivial(&mut self, h: u64) {
        self.stats.nontrivial += 1;
        if self.stats.hashes.len() < 6_000_000 {
            self.stats.hashes.push(h);
        }
    }
    pub fn sample(&mut self, v: impl FnOnce() -> Value) {
        if self.stats.samples.len() < 4 {
            let v = v();
            self.stats.samples.push(v);
        }
    }
    pub fn max(&mut self, key: &str, v: u64, witness: impl FnOnce() -> Value) {
        let e = self.stats.maxima.entry(key.to_string()).or_insert((0, Value::Null));
        if v > e.0 || e.1.is_null() {
            *e = (v, witness());
        }
    }
    pub fn violation(&mut self, sig: impl Into<String>, detail: impl FnOnce() -> Value) {
        let sig = sig.into();
        let c = self.stats.sig_counts.entry(sig.clone()).or_default();
        *c += 1;
        if *c <= 2 || self.replaying {
            let d = detail();
            self.stats.violations.push(Violation { sig, idx: self.idx, detail: d });
        }
    }
}

pub trait Check {
    fn id(&self) -> &'static str;
    fn level(&self) -> &'static str { "exploration" }
    fn rule(&self) -> String;
    fn assumptions(&self) -> Vec<String> { vec![] }
    /// number of cases (work units) for this tier; cases are sharded round-robin over workers
    fn total_cases(&self, tier: Tier) -> u64;
    fn run_case(&mut self, cx: &mut Cx);
    /// is the enumerated part complete when all cases ran?
    fn exhaustive(&self, _tier: Tier) -> Option<bool> { None }
    /// supervisor-side check of the merged statistics: return Err(reason) if the run observed too little
    fn sufficient(&self, _tier: Tier, _merged: &Stats) -> Result<(), String> { Ok(()) }
    /// extra coverage keys
    fn extra_coverage(&self, _tier: Tier, _merged: &Stats) -> Value { json!({}) }
    /// single-process only (e.g. binds fixed resources)
    fn max_workers(&self, _tier: Tier) -> usize { 16 }
    /// soft wall-clock budget for the run, seconds
    fn budget_s(&self, tier: Tier) -> u64 { tier.pick(90, 1500) }
    /// short stable name of the sub-workload a case index belongs to (used in abort signatures)
    fn case_label(&self, _tier: Tier, _idx: u64) -> String { String::new() }
    /// case index ranges (from, count) to repeat under the Miri interpreter (None = no sanitizer stage in this tier)
    fn miri_plan(&self, _tier: Tier) -> Option<Vec<(u64, u64)>> { None }
    /// (from, count) case ranges repeated under valgrind memcheck; `MemMode::Cli` runs the ranges natively with the
    /// CLI subprocesses under memcheck instead
    fn memcheck_plan(&self, _tier: Tier) -> Option<(MemMode, Vec<(u64, u64)>)> { None }
}

// ------------------------------------------------------------------------------------------------
// known findings

#[derive(Debug, Clone)]
pub struct Finding {
    pub property: String,
    pub sig: String,
    pub what: String,
}

#[derive(Debug, Clone, Copy, PartialEq, Eq)]
pub enum MemMode {
    Harness,
    Cli,
}

pub fn verif_root() -> PathBuf { std::env::var("VERIF_ROOT").map(PathBuf::from).unwrap_or_else(|_| PathBuf::from("/verif")) }

pub fn load_findings() -> Vec<Finding> {
    let p = verif_root().join("known_findings.txt");
    let mut out = Vec::new();
    if let Ok(s) = std::fs::read_to_string(p) {
        for line in s.lines() {
            let line = line.trim();
            if let Some(rest) = line.strip_prefix("finding:") {
                // finding: property=Cxx sig=<...> :: <what>
                let rest = rest.trim();
                let (head, what) = match rest.split_once(" :: ") {
                    Some((h, w)) => (h, w.to_string()),
                    None => (rest, String::new()),
                };
                if let Some(r) = head.strip_prefix("property=") {
                    if let Some((prop, sig)) = r.split_once(" sig=") {
                        out.push(Finding { property: prop.trim().to_string(), sig: sig.trim().to_string(), what });
                    }
                }
            }
        }
    }
    out
}

// ------------------------------------------------------------------------------------------------
// worker

pub struct WorkerArgs {
    pub tier: Tier,
    pub seed: u64,
    pub shard: u64,
    pub nshards: u64,
    pub start: u64,
    pub skip: Vec<u64>,
    pub dir: PathBuf,
    pub resume: bool,
    pub deadline_s: u64,
}

#[derive(Serialize, Deserialize, Default)]
struct Ckpt {
    next: u64,
    done: bool,
    budget_cut: bool,
    stats: Stats,
}

fn write_hashes(path: &Path, hashes: &[u64]) {
    let mut buf = Vec::with_capacity(hashes.len() * 8);
    for h in hashes {
        buf.extend_from_slice(&h.to_le_bytes());
    }
    if let Ok(mut f) = std::fs::OpenOptions::new().create(true).append(true).open(path) {
        let _ = f.write_all(&buf);
    }
}

fn read_hashes(path: &Path, into: &mut HashSet<u64>) {
    if let Ok(b) = std::fs::read(path) {
        for c in b.chunks_exact(8) {
            into.insert(u64::from_le_bytes(c.try_into().unwrap()));
        }
    }
}

pub fn case_rng(seed: u64, id: &str, idx: u64) -> Rng { Rng::for_case(seed, id, idx) }

pub fn worker_main(check: &mut dyn Check, a: WorkerArgs) -> i32 {
    super::monitor::install_panic_hook();
    std::env::remove_var("RUST_BACKTRACE");
    std::env::remove_var("RUST_LIB_BACKTRACE");
    let base = a.dir.join(format!("shard-{}", a.shard));
    let journal_path = base.with_extension("journal");
    let ckpt_path = base.with_extension("ckpt.json");
    let hash_path = base.with_extension("hashes");
    let journal = std::fs::OpenOptions::new().create(true).append(true).open(&journal_path).expect("journal");
    alloc::JOURNAL_FD.store(journal.as_raw_fd(), std::sync::atomic::Ordering::Relaxed);

    let mut stats = Stats::default();
    if a.resume {
        if let Ok(s) = std::fs::read_to_string(&ckpt_path) {
            if let Ok(c) = serde_json::from_str::<Ckpt>(&s) {
                stats = c.stats;
            }
        }
    } else {
        let _ = std::fs::remove_file(&hash_path);
    }
    let total = check.total_cases(a.tier);
    let started = Instant::now();
    let mut last_ckpt = Instant::now();
    let mut idx = a.start;
    // align to this shard
    while idx % a.nshards != a.shard {
        idx += 1;
    }
    let mut budget_cut = false;
    let mut linebuf = Vec::with_capacity(32);
    while idx < total {
        if !a.skip.contains(&idx) {
            linebuf.clear();
            let _ = write!(&mut linebuf, "B {idx}\n");
            unsafe {
                libc::write(journal.as_raw_fd(), linebuf.as_ptr() as *const libc::c_void, linebuf.len());
            }
            let mut cx = Cx { rng: case_rng(a.seed, check.id(), idx), tier: a.tier, seed: a.seed, idx, replaying: false, stats: &mut stats };
            check.run_case(&mut cx);
        }
        idx += a.nshards;
        if last_ckpt.elapsed() > Duration::from_millis(1500) {
            write_hashes(&hash_path, &stats.hashes);
            stats.hashes.clear();
            let c = Ckpt { next: idx, done: false, budget_cut: false, stats };
            let tmp = ckpt_path.with_extension("tmp");
            std::fs::write(&tmp, serde_json::to_vec(&c).unwrap()).unwrap();
            std::fs::rename(&tmp, &ckpt_path).unwrap();
            stats = c.stats;
            last_ckpt = Instant::now();
            if started.elapsed().as_secs() > a.deadline_s {
                budget_cut = true;
                break;
            }
        }
    }
    write_hashes(&hash_path, &stats.hashes);
    stats.hashes.clear();
    let c = Ckpt { next: idx, done: true, budget_cut, stats };
    let tmp = ckpt_path.with_extension("tmp");
    std::fs::write(&tmp, serde_json::to_vec(&c).unwrap()).unwrap();
    std::fs::rename(&tmp, &ckpt_path).unwrap();
    let _ = unsafe { libc::write(journal.as_raw_fd(), b"DONE\n".as_ptr() as *const libc::c_void, 5) };
    0
}

// ------------------------------------------------------------------------------------------------
// supervisor

struct Shard {
    id: u64,
    child: Option<Child>,
    skip: Vec<u64>,
    deaths: u32,
    last_size: u64,
    last_progress: Instant,
    finished: bool,
}

fn last_begin(journal: &Path) -> (Option<u64>, Option<u64>, bool) {
    // returns (last B idx, OVERSIZE value after it if any, DONE seen)
    let s = std::fs::read_to_string(journal).unwrap_or_default();
    let mut last = None;
    let mut oversize = None;
    let mut done = false;
    for l in s.lines() {
        if let Some(r) = l.strip_prefix("B ") {
            last = r.trim().parse().ok();
            oversize = None;
        } else if let Some(r) = l.strip_prefix("OVERSIZE ") {
            oversize = r.trim().parse().ok();
        } else if l == "DONE" {
            done = true;
        }
    }
    (last, oversize, done)
}

fn spawn_worker(exe: &Path, id: &str, tier: Tier, seed: u64, sh: &Shard, nshards: u64, dir: &Path, start: u64, resume: bool, deadline_s: u64) -> Child {
    let mut c = Command::new(exe);
    c.arg("worker")
        .arg(id)
        .arg("--tier")
        .arg(tier.name())
        .arg("--seed")
        .arg(seed.to_string())
        .arg("--shard")
        .arg(sh.id.to_string())
        .arg("--nshards")
        .arg(nshards.to_string())
        .arg("--start")
        .arg(start.to_string())
        .arg("--dir")
        .arg(dir)
        .arg("--deadline")
        .arg(deadline_s.to_string());
    if !sh.skip.is_empty() {
        c.arg("--skip").arg(sh.skip.iter().map(u64::to_string).collect::<Vec<_>>().join(","));
    }
    if resume {
        c.arg("--resume");
    }
    c.env_remove("RUST_BACKTRACE").stdin(Stdio::null()).stdout(Stdio::null());
    c.spawn().expect("spawn worker")
}

pub struct RunResult {
    pub exit: i32,
}

pub fn supervisor_main(check: &mut dyn Check, tier: Tier, seed: u64) -> RunResult {
    let t0 = Instant::now();
    let id = check.id();
    let exe = std::env::current_exe().expect("current_exe");
    let root = verif_root();
    let dir = root.join(".work").join(format!("{}-{}", id, tier.name()));
    let _ = std::fs::remove_dir_all(&dir);
    std::fs::create_dir_all(&dir).expect("work dir");
    let total = check.total_cases(tier);
    let ncpu = std::thread::available_parallelism().map(|n| n.get()).unwrap_or(4);
    let nshards = (ncpu.min(check.max_workers(tier)) as u64).min(total.max(1)).max(1);
    let budget = std::env::var("VERIF_BUDGET_S").ok().and_then(|s| s.parse().ok()).unwrap_or_else(|| check.budget_s(tier));
    let mut shards: Vec<Shard> = (0 .. nshards).map(|i| Shard { id: i, child: None, skip: vec![], deaths: 0, last_size: 0, last_progress: Instant::now(), finished: false }).collect();
    for sh in shards.iter_mut() {
        sh.child = Some(spawn_worker(&exe, id, tier, seed, sh, nshards, &dir, 0, false, budget));
    }
    let mut sup_stats = Stats::default(); // supervisor-attributed events (aborts, hangs)
    let stall_limit = Duration::from_secs(std::env::var("VERIF_STALL_S").ok().and_then(|s| s.parse().ok()).unwrap_or(120));
    loop {
        let mut all_done = true;
        for sh in shards.iter_mut() {
            if sh.finished {
                continue;
            }
            all_done = false;
            let journal = dir.join(format!("shard-{}.journal", sh.id));
            let ckpt_path = dir.join(format!("shard-{}.ckpt.json", sh.id));
            let status = sh.child.as_mut().unwrap().try_wait().expect("try_wait");
            let mut died: Option<String> = None;
            match status {
                Some(st) => {
                    let (_, _, done) = last_begin(&journal);
                    if st.success() && done {
                        sh.finished = true;
                        continue;
                    }
                    use std::os::unix::process::ExitStatusExt;
                    died = Some(match st.signal() {
                        Some(sig) => format!("signal {sig}"),
                        None => format!("exit {}", st.code().unwrap_or(-1)),
                    });
                }
                None => {
                    let size = std::fs::metadata(&journal).map(|m| m.len()).unwrap_or(0);
                    if size != sh.last_size {
                        sh.last_size = size;
                        sh.last_progress = Instant::now();
                    } else if sh.last_progress.elapsed() > stall_limit {
                        let _ = sh.child.as_mut().unwrap().kill();
                        let _ = sh.child.as_mut().unwrap().wait();
                        died = Some("stalled".to_string());
                    }
                }
            }
            if let Some(how) = died {
                let (last, oversize, _) = last_begin(&journal);
                sh.deaths += 1;
                let case = last.unwrap_or(0);
                // classify
                if how == "stalled" {
                    // confirm by re-running the case alone (wall-clock basis)
                    let mut reproduced = 0;
                    for _ in 0 .. 2 {
                        if run_single_case_times_out(&exe, id, tier, seed, case, 60) {
                            reproduced += 1;
                        }
                    }
                    if reproduced == 2 {
                        let sig = format!("{id} hang basis=wallclock case-class={}", case_class(check, tier, seed, case));
                        *sup_stats.sig_counts.entry(sig.clone()).or_default() += 1;
                        sup_stats.violations.push(Violation { sig, idx: case, detail: json!({"how":"no progress for stall limit; reproduced twice alone with 60 s limit","idx":case}) });
                    } else {
                        *sup_stats.inconclusive.entry("stall-not-reproduced".into()).or_default() += 1;
                    }
                } else if let Some(sz) = oversize {
                    let sig = format!("{id} alloc-refused-abort size-class={} {}", size_class(sz), case_class(check, tier, seed, case));
                    *sup_stats.sig_counts.entry(sig.clone()).or_default() += 1;
                    sup_stats.violations.push(Violation { sig, idx: case, detail: json!({"how":how,"oversize_request":sz,"idx":case}) });
                } else {
                    let sig = format!("{id} worker-died {} {}", how, case_class(check, tier, seed, case));
                    *sup_stats.sig_counts.entry(sig.clone()).or_default() += 1;
                    sup_stats.violations.push(Violation { sig, idx: case, detail: json!({"how":how,"idx":case}) });
                }
                sh.skip.push(case);
                if sh.deaths > 200 {
                    *sup_stats.inconclusive.entry("shard-abandoned-after-200-deaths".into()).or_default() += 1;
                    sh.finished = true;
                    continue;
                }
                // resume from checkpoint
                let (start, resume) = match std::fs::read_to_string(&ckpt_path).ok().and_then(|s| serde_json::from_str::<Ckpt>(&s).ok()) {
                    Some(c) => (c.next, true),
                    None => (0, false),
                };
                // truncate the hashes file to what the checkpoint covers is unnecessary: hashes are a set
                sh.last_progress = Instant::now();
                sh.child = Some(spawn_worker(&exe, id, tier, seed, sh, nshards, &dir, start, resume, budget.saturating_sub(t0.elapsed().as_secs()).max(5)));
            }
        }
        if all_done {
            break;
        }
        std::thread::sleep(Duration::from_millis(30));
    }

    // merge
    let mut merged = Stats::default();
    let mut budget_cut = false;
    let mut distinct: HashSet<u64> = HashSet::new();
    for sh in &shards {
        let ckpt_path = dir.join(format!("shard-{}.ckpt.json", sh.id));
        match std::fs::read_to_string(&ckpt_path).ok().and_then(|s| serde_json::from_str::<Ckpt>(&s).ok()) {
            Some(c) => {
                budget_cut |= c.budget_cut;
                merged.merge(c.stats);
            }
            None => {
                *merged.inconclusive.entry("shard-result-missing".into()).or_default() += 1;
            }
        }
        read_hashes(&dir.join(format!("shard-{}.hashes", sh.id)), &mut distinct);
    }
    merged.merge(sup_stats);
    // sanitizer stage (Miri) over a sub-range of the same cases
    if let Some(plan) = check.miri_plan(tier) {
        if std::env::var("VERIF_NO_MIRI").is_err() {
            let m = miri_stage(id, tier, seed, &plan);
            *merged.counters.entry("miri_cases".into()).or_default() += m.cases;
            *merged.counters.entry("miri_evaluations".into()).or_default() += m.evaluations;
            *merged.counters.entry("miri_shards".into()).or_default() += m.shards as u64;
            *merged.counters.entry("miri_wall_s".into()).or_default() += m.wall_s as u64;
            for u in &m.ub_reports {
                let sig = format!("{id} miri {}", u.split(": ").skip(1).collect::<Vec<_>>().join(": ").chars().take(140).collect::<String>());
                *merged.sig_counts.entry(sig.clone()).or_default() += 1;
                merged.violations.push(Violation { sig, idx: 0, detail: json!({"miri_report": u}) });
            }
            for s in &m.signatures {
                // a violation seen only under the interpreter (e.g. a debug assertion): same signature space as the native run
                *merged.sig_counts.entry(s.clone()).or_default() += 1;
                merged.violations.push(Violation { sig: s.clone(), idx: 0, detail: json!({"seen_under": "miri"}) });
            }
            for i in m.inconclusive {
                *merged.inconclusive.entry(format!("miri: {}", i.chars().take(160).collect::<String>())).or_default() += 1;
            }
        }
    }
    // sanitizer stage (valgrind memcheck) over a sub-range of the same cases, native code and real sockets
    if let Some((mode, plan)) = check.memcheck_plan(tier) {
        if std::env::var("VERIF_NO_MEMCHECK").is_err() {
            let m = memcheck_stage(id, tier, seed, mode, &plan);
            *merged.counters.entry("memcheck_cases".into()).or_default() += m.cases;
            *merged.counters.entry("memcheck_evaluations".into()).or_default() += m.evaluations;
            *merged.counters.entry("memcheck_shards".into()).or_default() += m.shards as u64;
            *merged.counters.entry("memcheck_wall_s".into()).or_default() += m.wall_s as u64;
            for u in &m.ub_reports {
                let sig = format!("{id} memcheck {}", u.chars().take(140).collect::<String>());
                *merged.sig_counts.entry(sig.clone()).or_default() += 1;
                merged.violations.push(Violation { sig, idx: 0, detail: json!({"memcheck_report": u}) });
            }
            for s in &m.signatures {
                *merged.sig_counts.entry(s.clone()).or_default() += 1;
                merged.violations.push(Violation { sig: s.clone(), idx: 0, detail: json!({"seen_under": "memcheck"}) });
            }
            for i in m.inconclusive {
                *merged.inconclusive.entry(format!("memcheck: {}", i.chars().take(160).collect::<String>())).or_default() += 1;
            }
        }
    }
    let wall = t0.elapsed().as_secs_f64();
    finish_run(check, tier, seed, merged, distinct.len() as u64, budget_cut, wall, total)
}

fn size_class(sz: u64) -> String {
    let mut b = 0;
    let mut s = sz;
    while s > 1 {
        s >>= 1;
        b += 1;
    }
    format!("2^{b}")
}

/// A short, stable description of which sub-workload a case index belongs to (for abort signatures).
fn case_class(check: &mut dyn Check, tier: Tier, seed: u64, idx: u64) -> String {
    let _ = seed;
    let l = check.case_label(tier, idx);
    if l.is_empty() { "case".to_string() } else { l }
}

fn run_single_case_times_out(exe: &Path, id: &str, tier: Tier, seed: u64, idx: u64, limit_s: u64) -> bool {
    let mut child = match Command::new(exe)
        .arg("case")
        .arg(id)
        .arg("--tier")
        .arg(tier.name())
        .arg("--seed")
        .arg(seed.to_string())
        .arg("--idx")
        .arg(idx.to_string())
        .stdout(Stdio::null())
        .stderr(Stdio::null())
        .spawn()
    {
        Ok(c) => c,
        Err(_) => return false,
    };
    let t = Instant::now();
    loop {
        if let Ok(Some(_)) = child.try_wait() {
            return false;
        }
        if t.elapsed().as_secs() > limit_s {
            let _ = child.kill();
            let _ = child.wait();
            return true;
        }
        std::thread::sleep(Duration::from_millis(50));
    }
}

/// Evaluate merged statistics: known findings, VIOLATION lines, evidence file, exit status.
pub fn finish_run(check: &mut dyn Check, tier: Tier, seed: u64, merged: Stats, distinct: u64, budget_cut: bool, wall: f64, total_cases: u64) -> RunResult {
    let id = check.id();
    let root = verif_root();
    let findings = load_findings();
    let mut known_hit: BTreeMap<String, u64> = BTreeMap::new();
    let mut new_sigs: BTreeMap<String, u64> = BTreeMap::new();
    for (sig, n) in &merged.sig_counts {
        if let Some(f) = findings.iter().find(|f| f.property == id && &f.sig == sig) {
            *known_hit.entry(f.sig.clone()).or_default() += n;
        } else {
            *new_sigs.entry(sig.clone()).or_default() += n;
        }
    }
    // replay files for new signatures
    let rdir = root.join("replays").join(id);
    let mut lines = Vec::new();
    if !new_sigs.is_empty() {
        let _ = std::fs::create_dir_all(&rdir);
    }
    for (sig, n) in &new_sigs {
        let v = merged.violations.iter().find(|v| &v.sig == sig);
        let path = rdir.join(format!("{:016x}.json", hash_str(sig)));
        let doc = json!({
            "property": id, "signature": sig, "count": n, "tier": tier.name(), "seed": seed,
            "idx": v.map(|v| v.idx), "detail": v.map(|v| v.detail.clone()),
            "replay": format!("./check replay {}", path.display()),
        });
        let _ = std::fs::write(&path, serde_json::to_vec_pretty(&doc).unwrap());
        lines.push(format!("VIOLATION property={} replay={} sig=[{}] count={}", id, path.display(), sig, n));
    }
    for f in findings.iter().filter(|f| f.property == id) {
        if known_hit.contains_key(&f.sig) {
            println!("KNOWN-FINDING: property={} {} [sig={}; seen {} times this run]", id, f.what, f.sig, known_hit[&f.sig]);
        } else {
            println!("NOTE: listed finding not reproduced this run: property={} sig={}", id, f.sig);
        }
    }
    for (k, n) in &merged.inconclusive {
        println!("INCONCLUSIVE property={id} reason={k} count={n}");
    }
    let sufficient = check.sufficient(tier, &merged);
    let mut broken: Option<String> = None;
    if merged.evaluations == 0 || distinct < 2 {
        broken = Some(format!("observed too little: evaluations={} distinct_nontrivial={}", merged.evaluations, distinct));
    } else if let Err(e) = &sufficient {
        if budget_cut {
            println!("INCONCLUSIVE property={id} reason=budget-cut-before-minimum ({e})");
        } else {
            broken = Some(e.clone());
        }
    }
    let mut coverage = json!({
        "evaluations": merged.evaluations,
        "distinct_nontrivial": distinct,
        "nontrivial_evaluations": merged.nontrivial,
        "rule": check.rule(),
        "samples": merged.samples,
        "cases_planned": total_cases,
        "budget_cut": budget_cut,
        "counters": merged.counters,
        "shapes_seen": merged.shapes.len(),
        "shapes": merged.shapes,
        "observe_only": merged.observe,
        "inconclusive": merged.inconclusive,
        "known_findings_hit": known_hit,
        "new_violation_signatures": new_sigs,
        "maxima": merged.maxima.iter().map(|(k,(v,w))| (k.clone(), json!({"value":v,"witness":w}))).collect::<BTreeMap<_,_>>(),
    });
    if let Some(e) = check.exhaustive(tier) {
        coverage["exhaustive"] = json!(e && !budget_cut);
    }
    if let Value::Object(extra) = check.extra_coverage(tier, &merged) {
        for (k, v) in extra {
            coverage[k] = v;
        }
    }
    if coverage["samples"].as_array().map(|a| a.is_empty()).unwrap_or(true) {
        coverage["samples"] = json!([{"note":"no sample recorded"}]);
    }
    let evidence = json!({
        "property_id": id,
        "tier": tier.name(),
        "seed": seed,
        "level": check.level(),
        "coverage": coverage,
        "assumptions": check.assumptions(),
        "wall_s": wall,
        "violations": new_sigs.values().sum::<u64>(),
        "broken": broken,
    });
    let edir = root.join("evidence");
    let _ = std::fs::create_dir_all(&edir);
    std::fs::write(edir.join(format!("{id}.json")), serde_json::to_vec_pretty(&evidence).unwrap()).expect("write evidence");
    println!(
        "SUMMARY property={} tier={} seed={} evaluations={} distinct_nontrivial={} new_violation_sigs={} known_findings_hit={} wall_s={:.1}",
        id,
        tier.name(),
        seed,
        merged.evaluations,
        distinct,
        new_sigs.len(),
        known_hit.len(),
        wall
    );
    for l in &lines {
        println!("{l}");
    }
    let exit = if !lines.is_empty() {
        1
    } else if let Some(b) = broken {
        eprintln!("BROKEN-CHECK property={id}: {b}");
        2
    } else {
        0
    };
    RunResult { exit }
}

/// Run a range of cases in-process and print one JSON summary line (this is what runs under Miri).
pub fn batch_main(check: &mut dyn Check, tier: Tier, seed: u64, from: u64, count: u64) -> i32 {
    super::monitor::install_panic_hook();
    // every GDError captures a backtrace when these are set: ruinous under the interpreter
    std::env::remove_var("RUST_BACKTRACE");
    std::env::remove_var("RUST_LIB_BACKTRACE");
    let mut stats = Stats::default();
    let total = check.total_cases(tier);
    for idx in from .. (from + count).min(total) {
        let mut cx = Cx { rng: case_rng(seed, check.id(), idx), tier, seed, idx, replaying: false, stats: &mut stats };
        check.run_case(&mut cx);
    }
    let sigs: Vec<&String> = stats.sig_counts.keys().collect();
    println!("BATCH-SUMMARY {}", json!({"evaluations": stats.evaluations, "nontrivial": stats.nontrivial, "signatures": sigs, "first": stats.violations.first().map(|v| &v.detail)}));
    if stats.sig_counts.is_empty() { 0 } else { 1 }
}

#[derive(Debug, Default)]
pub struct MiriOutcome {
    pub ran: bool,
    pub shards: usize,
    pub cases: u64,
    pub evaluations: u64,
    pub ub_reports: Vec<String>,
    pub signatures: Vec<String>,
    pub inconclusive: Vec<String>,
    pub wall_s: f64,
}

/// Repeat case ranges under `cargo +nightly miri run`, one process per range, up to 16 at a time.
pub fn miri_stage(id: &str, tier: Tier, seed: u64, plan: &[(u64, u64)]) -> MiriOutcome {
    let t0 = Instant::now();
    let mut out = MiriOutcome { ran: true, shards: plan.len(), ..Default::default() };
    let harness = verif_root().join("harness");
    let flags = "-Zmiri-disable-isolation -Zmiri-ignore-leaks";
    // build once (so that the shards do not race on the target directory)
    let build = Command::new("cargo")
        .current_dir(&harness)
        .args(["+nightly", "miri", "run", "--offline", "--target-dir", "target/miri", "--", "list"])
        .env("MIRIFLAGS", flags)
        .env("RUSTFLAGS", "--cfg gamedig_verif")
        .env("CARGO_NET_OFFLINE", "true")
        .stdin(Stdio::null())
        .output();
    match build {
        Ok(o) if o.status.success() => {}
        Ok(o) => {
            out.inconclusive.push(format!("miri build/run failed: {}", String::from_utf8_lossy(&o.stderr).lines().filter(|l| l.contains("error")).take(3).collect::<Vec<_>>().join(" | ")));
            out.wall_s = t0.elapsed().as_secs_f64();
            return out;
        }
        Err(e) => {
            out.inconclusive.push(format!("cargo miri not runnable: {e}"));
            return out;
        }
    }
    let mut pending: Vec<(u64, u64)> = plan.to_vec();
    pending.reverse();
    let mut running: Vec<((u64, u64), Child, Instant)> = Vec::new();
    let limit = Duration::from_secs(std::env::var("VERIF_MIRI_SHARD_S").ok().and_then(|s| s.parse().ok()).unwrap_or(1500));
    while !pending.is_empty() || !running.is_empty() {
        while running.len() < 16 && !pending.is_empty() {
            let (from, count) = pending.pop().unwrap();
            let child = Command::new("cargo")
                .current_dir(&harness)
                .args(["+nightly", "miri", "run", "--offline", "--target-dir", "target/miri", "--", "miri-batch", id, "--tier", tier.name(), "--seed", &seed.to_string(), "--from", &from.to_string(), "--count", &count.to_string()])
                .env("MIRIFLAGS", flags)
                .env("RUSTFLAGS", "--cfg gamedig_verif")
                .env("CARGO_NET_OFFLINE", "true")
                .env_remove("RUST_BACKTRACE")
                .env_remove("RUST_LIB_BACKTRACE")
                .stdin(Stdio::null())
                .stdout(Stdio::piped())
                .stderr(Stdio::piped())
                .spawn();
            match child {
                Ok(c) => running.push(((from, count), c, Instant::now())),
                Err(e) => out.inconclusive.push(format!("spawn: {e}")),
            }
        }
        let mut i = 0;
        while i < running.len() {
            let done = matches!(running[i].1.try_wait(), Ok(Some(_)));
            let late = running[i].2.elapsed() > limit;
            if done || late {
                let ((from, count), mut child, _) = running.remove(i);
                if late && !done {
                    let _ = child.kill();
                    out.inconclusive.push(format!("miri shard {from}+{count} cut after {} s", limit.as_secs()));
                    let _ = child.wait();
                    continue;
                }
                let o = child.wait_with_output();
                if let Ok(o) = o {
                    let so = String::from_utf8_lossy(&o.stdout).to_string();
                    let se = String::from_utf8_lossy(&o.stderr).to_string();
                    if se.contains("Undefined Behavior") || se.contains("error: unsupported operation") || se.contains("error: memory leaked") {
                        let first = se.lines().find(|l| l.starts_with("error")).unwrap_or("error").to_string();
                        out.ub_reports.push(format!("cases {from}..{}: {first}", from + count));
                    }
                    if let Some(l) = so.lines().find(|l| l.starts_with("BATCH-SUMMARY ")) {
                        if let Ok(v) = serde_json::from_str::<Value>(&l["BATCH-SUMMARY ".len() ..]) {
                            out.cases += count;
                            out.evaluations += v["evaluations"].as_u64().unwrap_or(0);
                            for s in v["signatures"].as_array().cloned().unwrap_or_default() {
                                if let Some(s) = s.as_str() {
                                    if !out.signatures.contains(&s.to_string()) {
                                        out.signatures.push(s.to_string());
                                    }
                                }
                            }
                        }
                    } else if out.ub_reports.is_empty() {
                        out.inconclusive.push(format!("miri shard {from}+{count}: no summary (exit {:?}): {}", o.status.code(), se.lines().rev().take(2).collect::<Vec<_>>().join(" | ")));
                    }
                }
            } else {
                i += 1;
            }
        }
        std::thread::sleep(Duration::from_millis(50));
    }
    out.wall_s = t0.elapsed().as_secs_f64();
    out
}

/// The valgrind options shared by the harness and the CLI wrapping: a report makes the process exit 97.
pub const MEMCHECK_ARGS: [&str; 5] = ["-q", "--error-exitcode=97", "--leak-check=no", "--num-callers=12", "--max-stackframe=8000000"];

/// Repeat case ranges under valgrind memcheck (the release binary itself, or its CLI subprocesses), up to 16 at a time.
pub fn memcheck_stage(id: &str, tier: Tier, seed: u64, mode: MemMode, plan: &[(u64, u64)]) -> MiriOutcome {
    let t0 = Instant::now();
    let mut out = MiriOutcome { ran: true, shards: plan.len(), ..Default::default() };
    let exe = match std::env::current_exe() {
        Ok(e) => e,
        Err(e) => {
            out.inconclusive.push(format!("current_exe: {e}"));
            return out;
        }
    };
    if Command::new("valgrind").arg("--version").stdin(Stdio::null()).stdout(Stdio::null()).stderr(Stdio::null()).status().map(|s| !s.success()).unwrap_or(true) {
        out.inconclusive.push("valgrind not runnable".into());
        return out;
    }
    let logdir = verif_root().join(".work").join(format!("memcheck-{id}-{}", std::process::id()));
    let _ = std::fs::create_dir_all(&logdir);
    let mut pending: Vec<(u64, u64)> = plan.to_vec();
    pending.reverse();
    let mut running: Vec<((u64, u64), Child, Instant)> = Vec::new();
    let limit = Duration::from_secs(std::env::var("VERIF_MEMCHECK_SHARD_S").ok().and_then(|s| s.parse().ok()).unwrap_or(900));
    while !pending.is_empty() || !running.is_empty() {
        while running.len() < 16 && !pending.is_empty() {
            let (from, count) = pending.pop().unwrap();
            let log = logdir.join(format!("vg-{from}.%p.log"));
            let mut cmd = match mode {
                MemMode::Harness => {
                    let mut c = Command::new("valgrind");
                    c.args(MEMCHECK_ARGS).arg(format!("--log-file={}", log.display())).arg(&exe).env("VERIF_UNDER_MEMCHECK", "1");
                    c
                }
                MemMode::Cli => {
                    let mut c = Command::new(&exe);
                    c.env("VERIF_CLI_WRAP", "valgrind").env("VERIF_CLI_WRAP_LOG", log.display().to_string());
                    c
                }
            };
            cmd.args(["miri-batch", id, "--tier", tier.name(), "--seed", &seed.to_string(), "--from", &from.to_string(), "--count", &count.to_string()])
                .env_remove("RUST_BACKTRACE")
                .env_remove("RUST_LIB_BACKTRACE")
                .stdin(Stdio::null())
                .stdout(Stdio::piped())
                .stderr(Stdio::piped());
            match cmd.spawn() {
                Ok(c) => running.push(((from, count), c, Instant::now())),
                Err(e) => out.inconclusive.push(format!("spawn: {e}")),
            }
        }
        let mut i = 0;
        while i < running.len() {
            let done = matches!(running[i].1.try_wait(), Ok(Some(_)));
            let late = running[i].2.elapsed() > limit;
            if done || late {
                let ((from, count), mut child, _) = running.remove(i);
                if late && !done {
                    let _ = child.kill();
                    out.inconclusive.push(format!("memcheck shard {from}+{count} cut after {} s", limit.as_secs()));
                    let _ = child.wait();
                    continue;
                }
                if let Ok(o) = child.wait_with_output() {
                    let so = String::from_utf8_lossy(&o.stdout).to_string();
                    let se = String::from_utf8_lossy(&o.stderr).to_string();
                    if let Some(l) = so.lines().find(|l| l.starts_with("BATCH-SUMMARY ")) {
                        if let Ok(v) = serde_json::from_str::<Value>(&l["BATCH-SUMMARY ".len() ..]) {
                            out.cases += count;
                            out.evaluations += v["evaluations"].as_u64().unwrap_or(0);
                            for s in v["signatures"].as_array().cloned().unwrap_or_default() {
                                if let Some(s) = s.as_str() {
                                    if !out.signatures.contains(&s.to_string()) {
                                        out.signatures.push(s.to_string());
                                    }
                                }
                            }
                        }
                    } else if o.status.code() != Some(97) {
                        out.inconclusive.push(format!("memcheck shard {from}+{count}: no summary (exit {:?}): {}", o.status.code(), se.lines().rev().take(2).collect::<Vec<_>>().join(" | ")));
                    }
                }
            } else {
                i += 1;
            }
        }
        std::thread::sleep(Duration::from_millis(50));
    }
    // every report block in every log: deduplicated by kind + first frame inside the repository or the harness
    let mut seen: BTreeSet<String> = BTreeSet::new();
    if let Ok(rd) = std::fs::read_dir(&logdir) {
        for e in rd.flatten() {
            let text = std::fs::read_to_string(e.path()).unwrap_or_default();
            let lines: Vec<&str> = text.lines().map(|l| l.trim_start_matches(|c: char| c == '=' || c.is_ascii_digit()).trim()).collect();
            for (i, l) in lines.iter().enumerate() {
                let is_head = ["Invalid read", "Invalid write", "Invalid free", "Conditional jump", "Use of uninitialised", "Syscall param", "Mismatched free", "Source and destination overlap", "Argument"].iter().any(|k| l.starts_with(k));
                if !is_head {
                    continue;
                }
                let frame = lines[i + 1 ..].iter().take(14).find(|f| f.contains("gamedig") || f.contains("gdverif")).or_else(|| lines.get(i + 1)).copied().unwrap_or("");
                let frame = frame.split(" (").next().unwrap_or(frame).split(": ").last().unwrap_or(frame);
                let head: String = l.chars().map(|c| if c.is_ascii_digit() { 'N' } else { c }).collect();
                seen.insert(format!("{head} @ {frame}"));
            }
        }
    }
    out.ub_reports = seen.into_iter().collect();
    if out.ub_reports.is_empty() {
        let _ = std::fs::remove_dir_all(&logdir);
    }
    out.wall_s = t0.elapsed().as_secs_f64();
    out
}

/// The command that runs a binary under test: plain, or under memcheck when the memcheck stage asks for it.
pub fn wrapped_command(bin: &Path) -> Command {
    if std::env::var("VERIF_CLI_WRAP").as_deref() == Ok("valgrind") {
        let mut c = Command::new("valgrind");
        c.args(MEMCHECK_ARGS);
        if let Ok(l) = std::env::var("VERIF_CLI_WRAP_LOG") {
            c.arg(format!("--log-file={l}"));
        }
        c.arg(bin);
        c
    } else {
        Command::new(bin)
    }
}

/// Run one case in-process and print what it reports (used by replay and by the hang re-check).
pub fn single_case_main(check: &mut dyn Check, tier: Tier, seed: u64, idx: u64) -> i32 {
    super::monitor::install_panic_hook();
    std::env::remove_var("RUST_BACKTRACE");
    let mut stats = Stats::default();
    let mut cx = Cx { rng: case_rng(seed, check.id(), idx), tier, seed, idx, replaying: true, stats: &mut stats };
    check.run_case(&mut cx);
    if stats.violations.is_empty() {
        println!("case {} idx={} seed={}: no violation reported ({} evaluations)", check.id(), idx, seed, stats.evaluations);
        0
    } else {
        for v in &stats.violations {
            println!("REPRODUCED property={} sig=[{}]\n{}", check.id(), v.sig, serde_json::to_string_pretty(&v.detail).unwrap());
        }
        1
    }
}
