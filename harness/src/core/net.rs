//! The harness side of the verification hook: a scripted, reactive, in-process "network".
//!
//! Semantics (kept deliberately close to what the real sockets do):
//! * UDP `receive(size)` pops the next queued datagram and truncates it to `size` bytes
//!   (default 1024, as `UdpSocketImpl`); an empty queue is a timeout *in virtual time* and is
//!   returned at once as `PacketReceive`.
//! * TCP `receive` returns everything the server wrote once the server has closed its side
//!   (this is what `read_to_end` gives); if the server keeps the stream open it is a timeout
//!   (`PacketReceive`), whatever was written.
//! * a refused connect is `SocketConnect`; an injected send failure is `PacketSend`.
//!
//! Every operation is appended to an event log *before* the server reacts to it, on the thread
//! that runs the query. A logical step counter bounds the number of operations after the
//! server has gone silent; exceeding it unwinds with a `StepLimit` payload.

use gamedig::protocols::types::TimeoutSettings;
use gamedig::verif_hook::{self, Kind, Transport};
use gamedig::{GDErrorKind, GDResult};
use std::cell::RefCell;
use std::collections::VecDeque;
use std::net::SocketAddr;
use std::rc::Rc;

#[derive(Debug, Clone, PartialEq, Eq)]
pub enum Ev {
    Connect { conn: u64, kind: Kind, addr: SocketAddr, ok: bool },
    Send { conn: u64, data: Vec<u8>, ok: bool },
    /// `got`: number of bytes delivered, None = timeout
    Recv { conn: u64, size: Option<usize>, got: Option<usize> },
    Close { conn: u64 },
}

pub struct Conn {
    pub id: u64,
    pub kind: Kind,
    pub addr: SocketAddr,
    pub timeouts: Option<TimeoutSettings>,
    /// UDP: queued datagrams. TCP: chunks written by the server.
    pub queue: VecDeque<Vec<u8>>,
    /// TCP only: server closed its side.
    pub closed: bool,
    pub sends: usize,
    pub recvs: usize,
}

impl Conn {
    pub fn reply(&mut self, d: Vec<u8>) { self.queue.push_back(d); }
    pub fn reply_all(&mut self, ds: impl IntoIterator<Item = Vec<u8>>) { self.queue.extend(ds); }
    pub fn close(&mut self) { self.closed = true; }
}

/// The scripted server. One instance serves all connections of a case.
pub trait Server: Send {
    /// false => the connection is refused (`SocketConnect`).
    fn on_connect(&mut self, _conn: &mut Conn) -> bool { true }
    /// Called for every datagram / write. false => the send fails (`PacketSend`).
    fn on_send(&mut self, _conn: &mut Conn, _data: &[u8]) -> bool { true }
    /// Called before every receive (lets a server react to "the client is now listening").
    fn on_recv(&mut self, _conn: &mut Conn) {}
}

/// A server that plays a fixed script: `per_conn[i]` is queued on the i-th connection when it is
/// opened (the last entry is reused for further connections if `repeat_last`).
pub struct ScriptServer {
    pub per_conn: Vec<Vec<Vec<u8>>>,
    pub tcp_close: bool,
    pub repeat_last: bool,
    opened: usize,
}

impl ScriptServer {
    pub fn new(per_conn: Vec<Vec<Vec<u8>>>) -> Self { Self { per_conn, tcp_close: true, repeat_last: false, opened: 0 } }
    pub fn single(script: Vec<Vec<u8>>) -> Self { Self::new(vec![script]) }
}

impl Server for ScriptServer {
    fn on_connect(&mut self, conn: &mut Conn) -> bool {
        let i = self.opened;
        self.opened += 1;
        let s = if i < self.per_conn.len() {
            Some(&self.per_conn[i])
        } else if self.repeat_last {
            self.per_conn.last()
        } else {
            None
        };
        if let Some(s) = s {
            conn.queue.extend(s.iter().cloned());
        }
        if conn.kind == Kind::Tcp && self.tcp_close {
            conn.closed = true;
        }
        true
    }
}

impl Server for Box<dyn Server> {
    fn on_connect(&mut self, conn: &mut Conn) -> bool { (**self).on_connect(conn) }
    fn on_send(&mut self, conn: &mut Conn, data: &[u8]) -> bool { (**self).on_send(conn, data) }
    fn on_recv(&mut self, conn: &mut Conn) { (**self).on_recv(conn) }
}

/// Wrap a closure as a server (reacts to sends only).
pub struct FnServer<F: FnMut(&mut Conn, &[u8]) -> bool + Send>(pub F);
impl<F: FnMut(&mut Conn, &[u8]) -> bool + Send> Server for FnServer<F> {
    fn on_send(&mut self, conn: &mut Conn, data: &[u8]) -> bool { (self.0)(conn, data) }
}

pub struct Net {
    pub log: Vec<Ev>,
    pub conns: Vec<Conn>,
    /// operations (send or receive) performed while nothing was queued for the client
    pub silent_ops: u64,
    pub total_ops: u64,
    pub delivered: u64,
    pub delivered_bytes: u64,
    /// every datagram / stream handed to the client: (connection, bytes)
    pub delivered_data: Vec<(u64, Vec<u8>)>,
    pub keep_delivered: bool,
    pub step_limit: u64,
    pub total_limit: u64,
}

/// Unwind payload used when a logical step bound is exceeded.
#[derive(Debug)]
pub struct StepLimit {
    pub silent_ops: u64,
    pub total_ops: u64,
}

impl Net {
    fn new() -> Self {
        Self { log: Vec::new(), conns: Vec::new(), silent_ops: 0, total_ops: 0, delivered: 0, delivered_bytes: 0, delivered_data: Vec::new(), keep_delivered: true, step_limit: 4096, total_limit: 1 << 20 }
    }

    pub fn sends(&self) -> Vec<(u64, &[u8])> {
        self.log
            .iter()
            .filter_map(|e| match e {
                Ev::Send { conn, data, .. } => Some((*conn, data.as_slice())),
                _ => None,
            })
            .collect()
    }
    pub fn n_sends(&self) -> usize { self.log.iter().filter(|e| matches!(e, Ev::Send { .. })).count() }
    pub fn n_recv_ok(&self) -> usize { self.log.iter().filter(|e| matches!(e, Ev::Recv { got: Some(_), .. })).count() }
    pub fn connects(&self) -> Vec<(Kind, SocketAddr)> {
        self.log
            .iter()
            .filter_map(|e| match e {
                Ev::Connect { kind, addr, .. } => Some((*kind, *addr)),
                _ => None,
            })
            .collect()
    }

    fn tick(&mut self, silent: bool) {
        self.total_ops += 1;
        if silent {
            self.silent_ops += 1;
        }
        if self.silent_ops > self.step_limit || self.total_ops > self.total_limit {
            std::panic::panic_any(StepLimit { silent_ops: self.silent_ops, total_ops: self.total_ops });
        }
    }
}

struct Shim {
    net: Rc<RefCell<Net>>,
    server: Rc<RefCell<dyn Server>>,
}

impl Transport for Shim {
    fn connect(&mut self, kind: Kind, address: &SocketAddr, timeouts: &Option<TimeoutSettings>) -> GDResult<u64> {
        let mut net = self.net.borrow_mut();
        let id = net.conns.len() as u64;
        let mut conn = Conn { id, kind, addr: *address, timeouts: *timeouts, queue: VecDeque::new(), closed: false, sends: 0, recvs: 0 };
        let idx = net.log.len();
        net.log.push(Ev::Connect { conn: id, kind, addr: *address, ok: true });
        let ok = self.server.borrow_mut().on_connect(&mut conn);
        net.conns.push(conn);
        net.tick(false);
        if ok {
            Ok(id)
        } else {
            if let Ev::Connect { ok, .. } = &mut net.log[idx] {
                *ok = false;
            }
            Err(GDErrorKind::SocketConnect.context("scripted: connection refused"))
        }
    }

    fn send(&mut self, conn: u64, data: &[u8]) -> GDResult<()> {
        let mut net = self.net.borrow_mut();
        let idx = net.log.len();
        net.log.push(Ev::Send { conn, data: data.to_vec(), ok: true });
        let net_ref = &mut *net;
        let c = &mut net_ref.conns[conn as usize];
        c.sends += 1;
        let silent_before = c.queue.is_empty();
        let ok = self.server.borrow_mut().on_send(c, data);
        let silent = silent_before && c.queue.is_empty();
        net_ref.tick(silent);
        if ok {
            Ok(())
        } else {
            if let Ev::Send { ok, .. } = &mut net.log[idx] {
                *ok = false;
            }
            Err(GDErrorKind::PacketSend.context("scripted: send failed"))
        }
    }

    fn receive(&mut self, conn: u64, size: Option<usize>) -> GDResult<Vec<u8>> {
        let mut net = self.net.borrow_mut();
        let net_ref = &mut *net;
        let c = &mut net_ref.conns[conn as usize];
        c.recvs += 1;
        self.server.borrow_mut().on_recv(c);
        let got: Option<Vec<u8>> = match c.kind {
            Kind::Udp => {
                c.queue.pop_front().map(|mut d| {
                    d.truncate(size.unwrap_or(1024));
                    d
                })
            }
            Kind::Tcp => {
                if c.closed {
                    let mut all = Vec::new();
                    while let Some(chunk) = c.queue.pop_front() {
                        all.extend(chunk);
                    }
                    Some(all)
                } else {
                    None
                }
            }
        };
        net_ref.log.push(Ev::Recv { conn, size, got: got.as_ref().map(Vec::len) });
        match got {
            Some(d) => {
                net_ref.delivered += 1;
                net_ref.delivered_bytes += d.len() as u64;
                if net_ref.keep_delivered {
                    net_ref.delivered_data.push((conn, d.clone()));
                }
                net_ref.tick(false);
                Ok(d)
            }
            None => {
                net_ref.tick(true);
                Err(GDErrorKind::PacketReceive.context("scripted: timed out (virtual time)"))
            }
        }
    }

    fn close(&mut self, conn: u64) {
        if let Ok(mut net) = self.net.try_borrow_mut() {
            net.log.push(Ev::Close { conn });
        }
    }
}

/// Handle kept by the harness while a query runs against a scripted server.
pub struct Session {
    pub net: Rc<RefCell<Net>>,
}

impl Session {
    /// Install `server` as this thread's network.
    pub fn start(server: Rc<RefCell<dyn Server>>) -> Self {
        let net = Rc::new(RefCell::new(Net::new()));
        verif_hook::install(Box::new(Shim { net: net.clone(), server }));
        Self { net }
    }

    pub fn with_limits(self, step_limit: u64, total_limit: u64) -> Self {
        {
            let mut n = self.net.borrow_mut();
            n.step_limit = step_limit;
            n.total_limit = total_limit;
        }
        self
    }

    /// Remove the transport and hand back what was observed.
    pub fn finish(self) -> Net {
        drop(verif_hook::uninstall());
        match Rc::try_unwrap(self.net) {
            Ok(cell) => cell.into_inner(),
            Err(rc) => {
                // a socket object leaked by an unwinding query may still hold the shim
                let mut n = rc.borrow_mut();
                std::mem::replace(&mut *n, Net::new())
            }
        }
    }
}

/// Run `f` against `server`; returns f's result and the observed network.
pub fn with_server<S: Server + 'static, R>(server: S, f: impl FnOnce() -> R) -> (R, Net, Rc<RefCell<S>>) {
    let srv = Rc::new(RefCell::new(server));
    let dynsrv: Rc<RefCell<dyn Server>> = srv.clone();
    let sess = Session::start(dynsrv);
    let r = f();
    let net = sess.finish();
    (r, net, srv)
}

pub fn hex(b: &[u8]) -> String {
    let mut s = String::with_capacity(b.len() * 2);
    for x in b {
        s.push_str(&format!("{x:02x}"));
    }
    s
}

pub fn unhex(s: &str) -> Vec<u8> {
    let s: Vec<u8> = s.bytes().filter(|c| c.is_ascii_hexdigit()).collect();
    s.chunks(2).filter(|c| c.len() == 2).map(|c| u8::from_str_radix(std::str::from_utf8(c).unwrap(), 16).unwrap()).collect()
}
