//! Deterministic PRNG (xoshiro256**) and the structured value generators shared by all models.

#[derive(Clone, Debug)]
pub struct Rng {
    s: [u64; 4],
}

fn splitmix(x: &mut u64) -> u64 {
    *x = x.wrapping_add(0x9e37_79b9_7f4a_7c15);
    let mut z = *x;
    z = (z ^ (z >> 30)).wrapping_mul(0xbf58_476d_1ce4_e5b9);
    z = (z ^ (z >> 27)).wrapping_mul(0x94d0_49bb_1331_11eb);
    z ^ (z >> 31)
}

pub fn hash64(data: &[u8]) -> u64 {
    // FNV-1a 64, then a splitmix finaliser
    let mut h: u64 = 0xcbf2_9ce4_8422_2325;
    for b in data {
        h ^= *b as u64;
        h = h.wrapping_mul(0x0000_0100_0000_01b3);
    }
    let mut x = h;
    splitmix(&mut x)
}

pub fn hash_str(s: &str) -> u64 { hash64(s.as_bytes()) }

/// Words that mean something to one of the protocols; generated as ordinary *values* (names, maps, rule values).
pub const KEYWORDS: &[&str] = &["final", "queryid", "splitnum", "player_", "score_0", "team_t", "hostname", "mapname", "numplayers", "maxplayers", "password", "true", "false", "True", "0", "1", "-1", "Mutator", "mutator", "MutatorCount", "GamePassword", "EOT", "statusResponse", "print", "disconnect", "MCPE", "Survival", "bot_5", "echo", "final\\", "\\final\\", "]]>", "a]]>b", "<![CDATA[x]]>", "&amp;", "&#10;", "<!--", "?>"];

impl Rng {
    pub fn new(seed: u64) -> Self {
        let mut x = seed;
        let s = [splitmix(&mut x), splitmix(&mut x), splitmix(&mut x), splitmix(&mut x)];
        Self { s }
    }

    /// Stream for one case: depends on (seed, label, index) only, never on sharding.
    pub fn for_case(seed: u64, label: &str, idx: u64) -> Self {
        Self::new(seed ^ hash_str(label).rotate_left(17) ^ idx.wrapping_mul(0x9e37_79b9_7f4a_7c15))
    }

    pub fn next_u64(&mut self) -> u64 {
        let result = self.s[1].wrapping_mul(5).rotate_left(7).wrapping_mul(9);
        let t = self.s[1] << 17;
        self.s[2] ^= self.s[0];
        self.s[3] ^= self.s[1];
        self.s[1] ^= self.s[2];
        self.s[0] ^= self.s[3];
        self.s[2] ^= t;
        self.s[3] = self.s[3].rotate_left(45);
        result
    }

    pub fn u32(&mut self) -> u32 { (self.next_u64() >> 32) as u32 }
    pub fn u8(&mut self) -> u8 { (self.next_u64() >> 56) as u8 }
    /// uniform in 0..n (n > 0)
    pub fn below(&mut self, n: u64) -> u64 { if n == 0 { 0 } else { self.next_u64() % n } }
    pub fn range(&mut self, lo: u64, hi_incl: u64) -> u64 { lo + self.below(hi_incl - lo + 1) }
    pub fn usize(&mut self, lo: usize, hi_incl: usize) -> usize { self.range(lo as u64, hi_incl as u64) as usize }
    pub fn bool(&mut self) -> bool { self.next_u64() & 1 == 1 }
    pub fn chance(&mut self, num: u64, den: u64) -> bool { self.below(den) < num }
    pub fn pick<'a, T>(&mut self, xs: &'a [T]) -> &'a T { &xs[self.below(xs.len() as u64) as usize] }
    pub fn bytes(&mut self, n: usize) -> Vec<u8> { (0 .. n).map(|_| self.u8()).collect() }
    pub fn shuffle<T>(&mut self, xs: &mut [T]) {
        for i in (1 .. xs.len()).rev() {
            let j = self.below(i as u64 + 1) as usize;
            xs.swap(i, j);
        }
    }

    // ---- boundary-biased numerics -------------------------------------------------------

    pub fn b_u8(&mut self) -> u8 {
        match self.below(10) {
            0 => 0,
            1 => 1,
            2 => 0x7f,
            3 => 0x80,
            4 => 0xfe,
            5 => 0xff,
            _ => self.u8(),
        }
    }
    pub fn b_u16(&mut self) -> u16 {
        match self.below(12) {
            0 => 0,
            1 => 1,
            2 => 0xff,
            3 => 0x100,
            4 => 0x7fff,
            5 => 0x8000,
            6 => 0xfffe,
            7 => 0xffff,
            _ => self.next_u64() as u16,
        }
    }
    pub fn b_u32(&mut self) -> u32 {
        match self.below(14) {
            0 => 0,
            1 => 1,
            2 => 0xff,
            3 => 0xffff,
            4 => 0x10000,
            5 => 0x7fff_ffff,
            6 => 0x8000_0000,
            7 => 0xffff_fffe,
            8 => 0xffff_ffff,
            9 => 1 << self.below(32),
            _ => self.u32(),
        }
    }
    pub fn b_i32(&mut self) -> i32 { self.b_u32() as i32 }
    pub fn b_u64(&mut self) -> u64 {
        match self.below(14) {
            0 => 0,
            1 => 1,
            2 => 0xffff_ffff,
            3 => 0x1_0000_0000,
            4 => 0x7fff_ffff_ffff_ffff,
            5 => 0x8000_0000_0000_0000,
            6 => u64::MAX,
            7 => u64::MAX - 1,
            8 => 1 << self.below(64),
            _ => self.next_u64(),
        }
    }

    // ---- strings --------------------------------------------------------------------------

    /// A string from one of several classes. `forbidden` characters never appear; NUL never appears.
    pub fn text(&mut self, max_chars: usize, forbidden: &[char]) -> String {
        // now and then a value that is a word of one of the protocols (a marker, a key, a boolean spelling)
        if self.chance(1, 24) {
            let w = *self.pick(KEYWORDS);
            if w.chars().count() <= max_chars && !w.chars().any(|c| forbidden.contains(&c)) {
                return w.to_string();
            }
        }
        let class = self.below(9);
        let n = match self.below(6) {
            0 => 0,
            1 => 1,
            2 => max_chars,
            _ => self.usize(0, max_chars),
        };
        self.text_class(class, n, forbidden)
    }

    /// Like `text` but never empty.
    pub fn text1(&mut self, max_chars: usize, forbidden: &[char]) -> String {
        loop {
            let s = self.text(max_chars.max(1), forbidden);
            if !s.is_empty() {
                return s;
            }
        }
    }

    pub fn text_class(&mut self, class: u64, n: usize, forbidden: &[char]) -> String {
        const ASCII: &[u8] = b"abcdefghijklmnopqrstuvwxyzABCDEFGHIJKLMNOPQRSTUVWXYZ0123456789 _-.:[]()!#";
        const MARKUP: &[char] = &['<', '>', '&', '\'', '"', '/', '\\', ';', ',', '=', '%', '$', '{', '}', '|', '^', '~', '`', '@', '?', '*', '+'];
        const MULTI: &[char] = &['é', 'ß', 'ñ', 'ü', 'Ω', 'ж', '中', '日', '€', '→', '§', '\u{00a0}', '\u{07ff}', '\u{0800}', '\u{ffff}', '😀', '\u{10000}', '\u{10ffff}', '\u{fffd}', '\u{feff}',
            // edges of the XML name classes: excluded from names although their neighbours are allowed
            '\u{37e}', '\u{37d}', '\u{37f}', '\u{d7}', '\u{f7}', '\u{b7}', '\u{2ff}', '\u{300}', '\u{36f}', '\u{370}', '\u{2000}', '\u{200c}', '\u{200e}', '\u{203f}', '\u{2041}', '\u{206f}', '\u{2190}', '\u{2bff}', '\u{2ff0}', '\u{3000}', '\u{fdd0}', '\u{fdef}', '\u{f0000}'];
        const CTRL: &[char] = &['\u{1}', '\u{2}', '\t', '\n', '\r', '\u{1b}', '\u{1f}', '\u{7f}', '\u{80}', '\u{9f}'];
        let mut s = String::new();
        let mut guard = 0;
        while s.chars().count() < n && guard < n * 20 + 20 {
            guard += 1;
            let c: char = match class {
                0 | 1 | 2 => *self.pick(ASCII) as char,
                3 => *self.pick(MARKUP),
                4 => *self.pick(MULTI),
                5 => *self.pick(CTRL),
                6 => {
                    // mixed
                    match self.below(4) {
                        0 => *self.pick(MARKUP),
                        1 => *self.pick(MULTI),
                        2 => *self.pick(CTRL),
                        _ => *self.pick(ASCII) as char,
                    }
                }
                7 => {
                    // digits / numeric-looking
                    *self.pick(b"0123456789-+.eE") as char
                }
                _ => {
                    // any scalar value
                    loop {
                        let v = self.below(0x11_0000) as u32;
                        if let Some(c) = char::from_u32(v) {
                            break c;
                        }
                    }
                }
            };
            if c == '\0' || forbidden.contains(&c) {
                continue;
            }
            s.push(c);
        }
        s
    }

    /// Printable ASCII identifier (letters, digits), 1..=max chars.
    pub fn ident(&mut self, max: usize) -> String {
        const A: &[u8] = b"abcdefghijklmnopqrstuvwxyzABCDEFGHIJKLMNOPQRSTUVWXYZ0123456789";
        let n = self.usize(1, max.max(1));
        (0 .. n).map(|_| *self.pick(A) as char).collect()
    }
}
