//! M-panic + M-step + M-alloc around one execution of real library code.

use super::alloc::{self, AllocStats};
use super::net::{Net, Server, Session, StepLimit};
use gamedig::{GDErrorKind, GDResult};
use std::cell::RefCell;
use std::panic::{catch_unwind, AssertUnwindSafe};
use std::rc::Rc;

#[derive(Debug, Clone)]
pub struct PanicInfo {
    pub msg: String,
    /// file:line:col as reported by the panic (path made relative to /repo when possible)
    pub loc: String,
}

thread_local! {
    static LAST_PANIC: RefCell<Option<PanicInfo>> = const { RefCell::new(None) };
}

pub fn install_panic_hook() {
    std::panic::set_hook(Box::new(|info| {
        let msg = if let Some(s) = info.payload().downcast_ref::<&str>() {
            (*s).to_string()
        } else if let Some(s) = info.payload().downcast_ref::<String>() {
            s.clone()
        } else if info.payload().downcast_ref::<StepLimit>().is_some() {
            "<step-limit>".to_string()
        } else {
            "<non-string panic payload>".to_string()
        };
        let loc = info.location().map(|l| format!("{}:{}", norm_path(l.file()), l.line())).unwrap_or_else(|| "?".into());
        LAST_PANIC.with(|p| *p.borrow_mut() = Some(PanicInfo { msg, loc }));
    }));
}

pub fn norm_path(p: &str) -> String {
    if let Some(i) = p.find("/repo/") {
        return p[i + 6 ..].to_string();
    }
    if let Some(i) = p.find("/registry/src/") {
        // dependency: keep crate-relative path
        let rest = &p[i + 14 ..];
        if let Some(j) = rest.find('/') {
            return format!("dep:{}", &rest[j + 1 ..]);
        }
    }
    if let Some(i) = p.find("/library/") {
        return format!("std:{}", &p[i + 9 ..]);
    }
    p.to_string()
}

/// Normalise a panic message so that a signature does not depend on the particular numbers.
pub fn norm_msg(m: &str) -> String {
    let mut out = String::new();
    let mut in_num = false;
    for c in m.chars() {
        let c = if c == '\n' || c == '\r' { ' ' } else { c };
        if c.is_ascii_digit() {
            if !in_num {
                out.push('N');
                in_num = true;
            }
        } else {
            in_num = false;
            out.push(c);
        }
    }
    // data-dependent tails of the standard slicing messages ("... it is inside 'x' (bytes ..) of `<the string>`")
    for cut in ["; it is inside", " of `", " of string `"] {
        if let Some(i) = out.find(cut) {
            out.truncate(i);
        }
    }
    if out.len() > 120 {
        let mut n = 120;
        while !out.is_char_boundary(n) {
            n -= 1;
        }
        out.truncate(n);
    }
    out
}

#[derive(Debug)]
pub enum Outcome<T> {
    Returned(T),
    Panicked(PanicInfo),
    /// the logical step bound was exceeded (non-termination on the logical clock)
    StepLimit { silent_ops: u64, total_ops: u64 },
}

impl<T> Outcome<T> {
    pub fn returned(self) -> Option<T> {
        match self {
            Outcome::Returned(t) => Some(t),
            _ => None,
        }
    }
}

/// Run arbitrary code under M-panic (and M-alloc).
pub fn guarded<T>(f: impl FnOnce() -> T) -> (Outcome<T>, AllocStats) {
    LAST_PANIC.with(|p| *p.borrow_mut() = None);
    alloc::begin();
    let r = catch_unwind(AssertUnwindSafe(f));
    let a = alloc::end();
    let o = match r {
        Ok(t) => Outcome::Returned(t),
        Err(payload) => {
            if let Some(s) = payload.downcast_ref::<StepLimit>() {
                Outcome::StepLimit { silent_ops: s.silent_ops, total_ops: s.total_ops }
            } else {
                let info = LAST_PANIC.with(|p| p.borrow_mut().take()).unwrap_or(PanicInfo { msg: "<unknown>".into(), loc: "?".into() });
                Outcome::Panicked(info)
            }
        }
    };
    (o, a)
}

pub struct Run<T, S> {
    pub outcome: Outcome<T>,
    pub net: Net,
    pub server: Rc<RefCell<S>>,
    pub alloc: AllocStats,
}

/// Run `f` (which calls into the library) against scripted `server`, under all three monitors.
pub fn run_with<S: Server + 'static, T>(server: S, step_limit: u64, f: impl FnOnce() -> T) -> Run<T, S> {
    let srv = Rc::new(RefCell::new(server));
    let dynsrv: Rc<RefCell<dyn Server>> = srv.clone();
    let sess = Session::start(dynsrv).with_limits(step_limit, 1 << 22);
    let (outcome, alloc) = guarded(f);
    let net = sess.finish();
    Run { outcome, net, server: srv, alloc }
}

pub const DEFAULT_STEP_LIMIT: u64 = 512;

pub fn kind_name(k: &GDErrorKind) -> &'static str {
    match k {
        GDErrorKind::PacketOverflow => "PacketOverflow",
        GDErrorKind::PacketUnderflow => "PacketUnderflow",
        GDErrorKind::PacketBad => "PacketBad",
        GDErrorKind::PacketSend => "PacketSend",
        GDErrorKind::PacketReceive => "PacketReceive",
        GDErrorKind::Decompress => "Decompress",
        GDErrorKind::SocketConnect => "SocketConnect",
        GDErrorKind::SocketBind => "SocketBind",
        GDErrorKind::InvalidInput => "InvalidInput",
        GDErrorKind::BadGame => "BadGame",
        GDErrorKind::AutoQuery => "AutoQuery",
        GDErrorKind::ProtocolFormat => "ProtocolFormat",
        GDErrorKind::UnknownEnumCast => "UnknownEnumCast",
        GDErrorKind::JsonParse => "JsonParse",
        GDErrorKind::TypeParse => "TypeParse",
        GDErrorKind::HostLookup => "HostLookup",
    }
}

pub fn result_name<T>(r: &GDResult<T>) -> &'static str {
    match r {
        Ok(_) => "Ok",
        Err(e) => kind_name(&e.kind),
    }
}
