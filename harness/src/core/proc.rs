//! Run a subprocess with a wall-clock limit (a limit hit is reported, never judged).

use std::io::Read;
use std::process::{Command, Stdio};
use std::time::{Duration, Instant};

pub struct ProcOut {
    pub code: Option<i32>,
    pub signal: Option<i32>,
    pub stdout: Vec<u8>,
    pub stderr: Vec<u8>,
    pub timed_out: bool,
    pub elapsed: Duration,
}

pub fn run(mut cmd: Command, limit: Duration) -> std::io::Result<ProcOut> {
    cmd.stdin(Stdio::null()).stdout(Stdio::piped()).stderr(Stdio::piped()).env_remove("RUST_BACKTRACE");
    let t0 = Instant::now();
    let mut child = cmd.spawn()?;
    let mut so = child.stdout.take().unwrap();
    let mut se = child.stderr.take().unwrap();
    let h1 = std::thread::spawn(move || {
        let mut b = Vec::new();
        let _ = so.read_to_end(&mut b);
        b
    });
    let h2 = std::thread::spawn(move || {
        let mut b = Vec::new();
        let _ = se.read_to_end(&mut b);
        b
    });
    let mut timed_out = false;
    let status = loop {
        if let Some(st) = child.try_wait()? {
            break st;
        }
        if t0.elapsed() > limit {
            timed_out = true;
            let _ = child.kill();
            break child.wait()?;
        }
        std::thread::sleep(Duration::from_millis(2));
    };
    use std::os::unix::process::ExitStatusExt;
    Ok(ProcOut { code: status.code(), signal: status.signal(), stdout: h1.join().unwrap_or_default(), stderr: h2.join().unwrap_or_default(), timed_out, elapsed: t0.elapsed() })
}
