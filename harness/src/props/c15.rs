//! C15 — the protocol-independent view equals the protocol-specific data.

use crate::core::framework::{Check, Cx, Stats, Tier};
use crate::core::monitor::{guarded, norm_msg, Outcome};
use crate::core::rng::hash64;
use crate::models::gamespy::{Gs1State, Gs2State, Gs3State};
use crate::models::minecraft::{BedrockState, JavaState};
use crate::models::misc::{EcoState, FfowState, Jc2mState, MindustryState, Savage2State};
use crate::models::quake::{QState, Ver};
use crate::models::unreal2::UState;
use crate::models::valve::State as VState;
use gamedig::games::theship;
use gamedig::protocols::types::{CommonPlayer, CommonResponse, GenericPlayer, GenericResponse};
use gamedig::protocols::valve::Engine;
use gamedig::protocols::{gamespy, quake, valve};
use serde_json::{json, Value};

pub struct C15;

#[derive(Debug, Clone, PartialEq, Default)]
struct View {
    name: Option<String>,
    description: Option<String>,
    game_mode: Option<String>,
    game_version: Option<String>,
    map: Option<String>,
    players_maximum: u32,
    players_online: u32,
    players_bots: Option<u32>,
    has_password: Option<bool>,
    players: Option<Vec<(String, Option<i32>)>>,
    /// accessors the table leaves open (observe-only)
    open: Vec<&'static str>,
}

fn observed(r: &dyn CommonResponse) -> View {
    View {
        name: r.name().map(str::to_string),
        description: r.description().map(str::to_string),
        game_mode: r.game_mode().map(str::to_string),
        game_version: r.game_version().map(str::to_string),
        map: r.map().map(str::to_string),
        players_maximum: r.players_maximum(),
        players_online: r.players_online(),
        players_bots: r.players_bots(),
        has_password: r.has_password(),
        players: r.players().map(|ps| ps.iter().map(|p| (p.name().to_string(), p.score())).collect()),
        open: vec![],
    }
}

fn view_json(v: &View) -> Value {
    json!({
        "name": v.name, "description": v.description, "game_mode": v.game_mode, "game_version": v.game_version, "map": v.map,
        "players_maximum": v.players_maximum, "players_online": v.players_online, "players_bots": v.players_bots, "has_password": v.has_password,
        "players": v.players.as_ref().map(|ps| ps.iter().map(|(n, s)| json!({"name": n, "score": s})).collect::<Vec<_>>()),
    })
}

/// check one response against its expected view; `orig_ok`: does as_original() point at (and equal) the original?
fn judge(cx: &mut Cx, ty: &'static str, r: &dyn CommonResponse, exp: View, orig_ok: bool, player_orig_ok: Option<bool>, h: u64) {
    cx.eval();
    let (o, _) = guarded(|| {
        let got = observed(r);
        let j = r.as_json();
        let from_json = View {
            name: j.name.map(str::to_string),
            description: j.description.map(str::to_string),
            game_mode: j.game_mode.map(str::to_string),
            game_version: j.game_version.map(str::to_string),
            map: j.map.map(str::to_string),
            players_maximum: j.players_maximum,
            players_online: j.players_online,
            players_bots: j.players_bots,
            has_password: j.has_password,
            players: j.players.as_ref().map(|ps| ps.iter().map(|p| (p.name.to_string(), p.score)).collect()),
            open: vec![],
        };
        let rendered: Option<Value> = serde_json::to_string(&j).ok().and_then(|s| serde_json::from_str(&s).ok());
        // players' own json
        let pj_ok = r.players().map(|ps| ps.iter().all(|p| {
            let pj = p.as_json();
            pj.name == p.name() && pj.score == p.score()
        })).unwrap_or(true);
        (got, from_json, rendered, pj_ok)
    });
    match o {
        Outcome::Returned((mut got, mut from_json, rendered, pj_ok)) => {
            let mut exp = exp;
            for f in exp.open.clone() {
                // open accessors are recorded, not asserted: copy the observed value into the expectation
                cx.observe(&format!("{ty}.{f} accessor left open by the table"));
                if f == "game_version" {
                    exp.game_version = got.game_version.clone();
                }
            }
            exp.open.clear();
            got.open.clear();
            from_json.open.clear();
            let fields = |a: &View, b: &View| -> Option<&'static str> {
                if a.name != b.name { return Some("name"); }
                if a.description != b.description { return Some("description"); }
                if a.game_mode != b.game_mode { return Some("game_mode"); }
                if a.game_version != b.game_version { return Some("game_version"); }
                if a.map != b.map { return Some("map"); }
                if a.players_maximum != b.players_maximum { return Some("players_maximum"); }
                if a.players_online != b.players_online { return Some("players_online"); }
                if a.players_bots != b.players_bots { return Some("players_bots"); }
                if a.has_password != b.has_password { return Some("has_password"); }
                if a.players != b.players { return Some("players"); }
                None
            };
            if let Some(f) = fields(&got, &exp) {
                cx.violation(format!("C15 {ty} accessor field={f}"), || json!({"type": ty, "field": f, "got": format!("{got:?}").chars().take(500).collect::<String>(), "expected": format!("{exp:?}").chars().take(500).collect::<String>()}));
            } else if let Some(f) = fields(&from_json, &exp) {
                cx.violation(format!("C15 {ty} as_json field={f}"), || json!({"type": ty, "field": f}));
            } else if rendered.as_ref() != Some(&view_json(&exp)) {
                cx.violation(format!("C15 {ty} as_json serde rendering differs"), || json!({"type": ty, "rendered": rendered, "expected": view_json(&exp)}));
            } else if !pj_ok {
                cx.violation(format!("C15 {ty} player as_json"), || json!({"type": ty}));
            } else if !orig_ok {
                cx.violation(format!("C15 {ty} as_original"), || json!({"type": ty, "what": "as_original() does not give back the original response"}));
            } else if player_orig_ok == Some(false) {
                cx.violation(format!("C15 {ty} player as_original"), || json!({"type": ty}));
            } else {
                cx.nontrivial(h);
                cx.count(&format!("ok|{ty}"));
                cx.sample(|| json!({"type": ty, "view": view_json(&exp)}));
            }
        }
        Outcome::Panicked(p) => cx.violation(format!("C15 panic at {} msg=\"{}\"", p.loc, norm_msg(&p.msg)), || json!({"type": ty})),
        Outcome::StepLimit { .. } => {}
    }
}

const TYPES: [&str; 15] = ["valve", "gamespy1", "gamespy2", "gamespy3", "quake1", "quake2", "unreal2", "java", "bedrock", "theship", "ffow", "jc2m", "savage2", "mindustry", "eco"];

impl Check for C15 {
    fn id(&self) -> &'static str { "C15" }
    fn miri_plan(&self, tier: Tier) -> Option<Vec<(u64, u64)>> {
        if tier != Tier::Thorough {
            return None;
        }
        Some((0 .. 16).map(|i| (i * 45, 45)).collect())
    }
    fn rule(&self) -> String {
        "values of the 15 response types built in this configuration (and their player types) generated directly through their public fields from the models' random states (boundary numerics, string classes, empty lists, optional members; in half the cases the count fields are set independently of the lists); an accessor table written from the field documentation (DESIGN.md Appendix B.1) gives the expected name/description/game_mode/game_version/map/players_maximum/players_online/players_bots/has_password/players(name, score); accessors, as_json() field by field, its serde_json rendering re-parsed, players' as_json, and as_original() (same variant, equal to and pointing at the original) are compared. non-trivial = all comparisons done; distinct by value".into()
    }
    fn assumptions(&self) -> Vec<String> { vec!["theship::Response has a game_version field that the view does not expose: recorded observe-only".into(), "Minetest and Epic response types need the tls feature and are not built".into()] }
    fn total_cases(&self, tier: Tier) -> u64 { tier.pick(600_000, 6_000_000) }
    fn run_case(&mut self, cx: &mut Cx) {
        let t = (cx.idx % 15) as usize;
        let rng = &mut cx.rng.clone();
        let (np, nx) = (rng.usize(0, 6), rng.usize(0, 4));
        let some = |s: &str| Some(s.to_string());
        match TYPES[t] {
            "valve" => {
                let engine = *rng.pick(&[Engine::new(440), Engine::GoldSrc(true), Engine::new(2400)]);
                let st = VState::gen(rng, &engine, 440, np, nx);
                let mut r = st.expected(rng.bool(), rng.bool());
                if rng.bool() {
                    // the counts the server announces are independent of the lists it sends
                    (r.info.players_online, r.info.players_maximum, r.info.players_bots) = (rng.b_u8(), rng.b_u8(), rng.b_u8());
                }
                let exp = View {
                    name: some(&r.info.name), game_mode: some(&r.info.game_mode), game_version: some(&r.info.game_version), map: some(&r.info.map),
                    players_maximum: r.info.players_maximum as u32, players_online: r.info.players_online as u32, players_bots: Some(r.info.players_bots as u32), has_password: Some(r.info.has_password),
                    players: r.players.as_ref().map(|p| p.iter().map(|x| (x.name.clone(), Some(x.score))).collect()), ..Default::default()
                };
                let orig = matches!(r.as_original(), GenericResponse::Valve(x) if std::ptr::eq(x, &r));
                let porig = r.players.as_ref().map(|ps| ps.iter().all(|p| matches!(p.as_original(), GenericPlayer::Valve(x) if std::ptr::eq(x, p))));
                judge(cx, "valve::Response", &r, exp, orig, porig, hash64(&st.info_message()) ^ np as u64);
            }
            "gamespy1" => {
                let mut r = Gs1State::gen(rng, np, nx).expected();
                if rng.bool() {
                    (r.players_online, r.players_maximum) = (rng.b_u32(), rng.b_u32());
                }
                let exp = View { name: some(&r.name), map: some(&r.map), has_password: Some(r.has_password), game_mode: some(&r.game_mode), game_version: some(&r.game_version), players_maximum: r.players_maximum, players_online: r.players_online, players: Some(r.players.iter().map(|p| (p.name.clone(), Some(p.score))).collect()), ..Default::default() };
                let orig = matches!(r.as_original(), GenericResponse::GameSpy(gamespy::VersionedResponse::One(x)) if std::ptr::eq(x, &r));
                let porig = Some(r.players.iter().all(|p| matches!(p.as_original(), GenericPlayer::Gamespy(gamespy::VersionedPlayer::One(x)) if std::ptr::eq(x, p))));
                judge(cx, "gamespy::one::Response", &r, exp, orig, porig, hash64(format!("{r:?}").as_bytes()));
            }
            "gamespy2" => {
                let mut r = Gs2State::gen(rng, np, nx, 1).expected();
                if rng.bool() {
                    (r.players_online, r.players_maximum) = (rng.b_u32(), rng.b_u32());
                }
                let exp = View { name: some(&r.name), map: some(&r.map), has_password: Some(r.has_password), players_maximum: r.players_maximum, players_online: r.players_online, players: Some(r.players.iter().map(|p| (p.name.clone(), Some(p.score as i32))).collect()), ..Default::default() };
                let orig = matches!(r.as_original(), GenericResponse::GameSpy(gamespy::VersionedResponse::Two(x)) if std::ptr::eq(x, &r));
                let porig = Some(r.players.iter().all(|p| matches!(p.as_original(), GenericPlayer::Gamespy(gamespy::VersionedPlayer::Two(x)) if std::ptr::eq(x, p))));
                judge(cx, "gamespy::two::Response", &r, exp, orig, porig, hash64(format!("{r:?}").as_bytes()));
            }
            "gamespy3" => {
                let mut r = Gs3State::gen(rng, np, nx, 1).expected();
                if rng.bool() {
                    (r.players_online, r.players_maximum) = (rng.b_u32(), rng.b_u32());
                }
                let exp = View { name: some(&r.name), map: some(&r.map), has_password: Some(r.has_password), game_mode: some(&r.game_mode), game_version: some(&r.game_version), players_maximum: r.players_maximum, players_online: r.players_online, players: Some(r.players.iter().map(|p| (p.name.clone(), Some(p.score))).collect()), ..Default::default() };
                let orig = matches!(r.as_original(), GenericResponse::GameSpy(gamespy::VersionedResponse::Three(x)) if std::ptr::eq(x, &r));
                let porig = Some(r.players.iter().all(|p| matches!(p.as_original(), GenericPlayer::Gamespy(gamespy::VersionedPlayer::Three(x)) if std::ptr::eq(x, p))));
                judge(cx, "gamespy::three::Response", &r, exp, orig, porig, hash64(format!("{r:?}").as_bytes()));
            }
            "quake1" => {
                let mut r = QState::gen(rng, Ver::One, np, nx).expected_one();
                if rng.bool() {
                    (r.players_online, r.players_maximum) = (rng.b_u8(), rng.b_u8());
                }
                let exp = View { name: some(&r.name), map: some(&r.map), game_version: r.game_version.clone(), players_maximum: r.players_maximum as u32, players_online: r.players_online as u32, players: Some(r.players.iter().map(|p| (p.name.clone(), Some(p.score as i32))).collect()), ..Default::default() };
                let orig = matches!(r.as_original(), GenericResponse::Quake(quake::VersionedResponse::One(x)) if std::ptr::eq(x, &r));
                let porig = Some(r.players.iter().all(|p| matches!(p.as_original(), GenericPlayer::QuakeOne(x) if std::ptr::eq(x, p))));
                judge(cx, "quake::Response<one::Player>", &r, exp, orig, porig, hash64(format!("{r:?}").as_bytes()));
            }
            "quake2" => {
                let mut r = QState::gen(rng, Ver::Two, np, nx).expected_two();
                if rng.bool() {
                    (r.players_online, r.players_maximum) = (rng.b_u8(), rng.b_u8());
                }
                let exp = View { name: some(&r.name), map: some(&r.map), game_version: r.game_version.clone(), players_maximum: r.players_maximum as u32, players_online: r.players_online as u32, players: Some(r.players.iter().map(|p| (p.name.clone(), Some(p.score))).collect()), ..Default::default() };
                let orig = matches!(r.as_original(), GenericResponse::Quake(quake::VersionedResponse::TwoAndThree(x)) if std::ptr::eq(x, &r));
                let porig = Some(r.players.iter().all(|p| matches!(p.as_original(), GenericPlayer::QuakeTwo(x) if std::ptr::eq(x, p))));
                judge(cx, "quake::Response<two::Player>", &r, exp, orig, porig, hash64(format!("{r:?}").as_bytes()));
            }
            "unreal2" => {
                let mut r = UState::gen(rng, np, nx).expected(true, true);
                if rng.bool() {
                    (r.server_info.num_players, r.server_info.max_players) = (rng.b_u32(), rng.b_u32());
                }
                let exp = View { name: some(&r.server_info.name), game_mode: some(&r.server_info.game_type), map: some(&r.server_info.map), players_maximum: r.server_info.max_players, players_online: r.server_info.num_players, has_password: Some(r.server_info.password), players: Some(r.players.players.iter().map(|p| (p.name.clone(), Some(p.score))).collect()), ..Default::default() };
                let orig = matches!(r.as_original(), GenericResponse::Unreal2(x) if std::ptr::eq(x, &r));
                let porig = Some(r.players.players.iter().all(|p| matches!(p.as_original(), GenericPlayer::Unreal2(x) if std::ptr::eq(x, p))));
                judge(cx, "unreal2::Response", &r, exp, orig, porig, hash64(format!("{:?}{:?}", r.server_info, r.players).as_bytes()));
            }
            "java" => {
                let (mut r, d) = JavaState::gen(rng).expected();
                r.description = d.to_string();
                if rng.bool() {
                    (r.players_online, r.players_maximum) = (rng.b_u32(), rng.b_u32());
                }
                // the same type also carries converted Bedrock and legacy statuses: the view does not depend on the label
                if rng.bool() {
                    use gamedig::games::minecraft::{LegacyGroup, Server};
                    r.server_type = rng.pick(&[Server::Bedrock, Server::Legacy(LegacyGroup::V1_6), Server::Legacy(LegacyGroup::V1_4), Server::Legacy(LegacyGroup::VB1_8), Server::Java]).clone();
                }
                let exp = View { description: some(&r.description), game_version: some(&r.game_version), players_maximum: r.players_maximum, players_online: r.players_online, players: r.players.as_ref().map(|p| p.iter().map(|x| (x.name.clone(), None)).collect()), ..Default::default() };
                let orig = matches!(r.as_original(), GenericResponse::Minecraft(gamedig::games::minecraft::VersionedResponse::Java(x)) if std::ptr::eq(x, &r));
                let porig = r.players.as_ref().map(|ps| ps.iter().all(|p| matches!(p.as_original(), GenericPlayer::Minecraft(x) if std::ptr::eq(x, p))));
                judge(cx, "minecraft::JavaResponse", &r, exp, orig, porig, hash64(format!("{r:?}").as_bytes()));
            }
            "bedrock" => {
                let st = loop {
                    let b = BedrockState::gen(rng);
                    if b.known_mode {
                        break b;
                    }
                };
                let r = st.expected();
                let exp = View { name: some(&r.name), map: r.map.clone(), game_version: some(&r.version_name), players_maximum: r.players_maximum, players_online: r.players_online, ..Default::default() };
                let orig = matches!(r.as_original(), GenericResponse::Minecraft(gamedig::games::minecraft::VersionedResponse::Bedrock(x)) if std::ptr::eq(x, &r));
                judge(cx, "minecraft::BedrockResponse", &r, exp, orig, None, hash64(format!("{r:?}").as_bytes()));
            }
            "theship" => {
                let st = VState::gen(rng, &Engine::new(2400), 2400, np, nx);
                let v = st.expected(true, true);
                let mut r = match theship::Response::new_from_valve_response(v) {
                    Ok(r) => r,
                    Err(_) => return,
                };
                if rng.bool() {
                    (r.players_online, r.players_maximum, r.players_bots) = (rng.b_u8(), rng.b_u8(), rng.b_u8());
                }
                let exp = View { name: some(&r.name), map: some(&r.map), game_mode: some(&r.game_mode), players_maximum: r.players_maximum as u32, players_online: r.players_online as u32, players_bots: Some(r.players_bots as u32), has_password: Some(r.has_password), players: Some(r.players.iter().map(|p| (p.name.clone(), Some(p.score))).collect()), open: vec!["game_version"], ..Default::default() };
                let orig = matches!(r.as_original(), GenericResponse::TheShip(x) if std::ptr::eq(x, &r));
                let porig = Some(r.players.iter().all(|p| matches!(p.as_original(), GenericPlayer::TheShip(x) if std::ptr::eq(x, p))));
                judge(cx, "theship::Response", &r, exp, orig, porig, hash64(&st.info_message()) ^ 0x5417);
            }
            "ffow" => {
                let r = FfowState::gen(rng).expected();
                let exp = View { name: some(&r.name), description: some(&r.description), game_mode: some(&r.game_mode), game_version: some(&r.game_version), map: some(&r.map), players_maximum: r.players_maximum as u32, players_online: r.players_online as u32, has_password: Some(r.has_password), ..Default::default() };
                let orig = matches!(r.as_original(), GenericResponse::FFOW(x) if std::ptr::eq(x, &r));
                judge(cx, "ffow::Response", &r, exp, orig, None, hash64(format!("{r:?}").as_bytes()));
            }
            "jc2m" => {
                let mut r = Jc2mState::gen(rng, np).expected();
                if rng.bool() {
                    (r.players_online, r.players_maximum) = (rng.b_u32(), rng.b_u32());
                }
                let exp = View { name: some(&r.name), description: some(&r.description), game_version: some(&r.game_version), players_maximum: r.players_maximum, players_online: r.players_online, has_password: Some(r.has_password), players: Some(r.players.iter().map(|p| (p.name.clone(), None)).collect()), ..Default::default() };
                let orig = matches!(r.as_original(), GenericResponse::JC2M(x) if std::ptr::eq(x, &r));
                let porig = Some(r.players.iter().all(|p| matches!(p.as_original(), GenericPlayer::JCMP2(x) if std::ptr::eq(x, p))));
                judge(cx, "jc2m::Response", &r, exp, orig, porig, hash64(format!("{r:?}").as_bytes()));
            }
            "savage2" => {
                let r = Savage2State::gen(rng).r;
                let exp = View { name: some(&r.name), game_mode: some(&r.game_mode), map: some(&r.map), players_maximum: r.players_maximum as u32, players_online: r.players_online as u32, ..Default::default() };
                let orig = matches!(r.as_original(), GenericResponse::Savage2(x) if std::ptr::eq(x, &r));
                judge(cx, "savage2::Response", &r, exp, orig, None, hash64(format!("{r:?}").as_bytes()));
            }
            "mindustry" => {
                let st = MindustryState::gen(rng);
                let r = st.d;
                let word = ["survival", "sandbox", "attack", "pvp", "editor"][st.mode_byte as usize];
                let exp = View { description: some(&r.description), game_mode: some(word), map: some(&r.map), players_maximum: r.player_limit.max(0) as u32, players_online: r.players.max(0) as u32, ..Default::default() };
                let orig = matches!(r.as_original(), GenericResponse::Mindustry(x) if std::ptr::eq(x, &r));
                judge(cx, "mindustry::ServerData", &r, exp, orig, None, hash64(format!("{r:?}").as_bytes()));
            }
            _ => {
                let mut r = EcoState::gen(rng).r;
                if rng.bool() {
                    (r.players_online, r.players_maximum) = (rng.b_u32(), rng.b_u32());
                }
                let exp = View { description: some(&r.description), game_version: some(&r.game_version), players_maximum: r.players_maximum, players_online: r.players_online, has_password: Some(r.has_password), players: Some(r.players.iter().map(|p| (p.name.clone(), None)).collect()), ..Default::default() };
                let orig = matches!(r.as_original(), GenericResponse::Eco(x) if std::ptr::eq(x, &r));
                let porig = Some(r.players.iter().all(|p| matches!(p.as_original(), GenericPlayer::Eco(x) if std::ptr::eq(x, p))));
                judge(cx, "eco::Response", &r, exp, orig, porig, hash64(format!("{:?}", (&r.description, r.players_online, r.players_maximum, &r.players)).as_bytes()));
            }
        }
    }
    fn sufficient(&self, _tier: Tier, m: &Stats) -> Result<(), String> {
        let n = m.counters.keys().filter(|k| k.starts_with("ok|")).count();
        if n < 15 {
            return Err(format!("only {n} of 15 response types passed all comparisons at least once"));
        }
        Ok(())
    }
    fn extra_coverage(&self, _tier: Tier, m: &Stats) -> Value { json!({"ok_per_type": m.counters.iter().filter(|(k, _)| k.starts_with("ok|")).collect::<std::collections::BTreeMap<_, _>>()}) }
}
