//! C16 — master-server filters are encoded faithfully and paging is complete.

use crate::core::framework::{Check, Cx, Stats, Tier};
use crate::core::monitor::{kind_name, norm_msg, run_with, Outcome, DEFAULT_STEP_LIMIT};
use crate::core::net::hex;
use crate::core::rng::{hash64, Rng};
use crate::models::master::{page, Addr, PagesServer};
use gamedig::services::valve_master_server::{Filter, Region, SearchFilters, ValveMasterServer};
use serde_json::{json, Value};
use std::collections::BTreeMap;
use std::net::{IpAddr, Ipv4Addr, SocketAddr};

pub struct C16;

const KINDS: usize = 18;
const REGIONS: [(Region, u8); 9] = [(Region::UsEast, 0), (Region::UsWest, 1), (Region::AmericaSouth, 2), (Region::Europe, 3), (Region::Asia, 4), (Region::Australia, 5), (Region::MiddleEast, 6), (Region::Africa, 7), (Region::Others, 0xff)];

fn key_of(kind: usize) -> &'static str {
    ["secure", "map", "password", "empty", "noplayers", "full", "appid", "napp", "gametype", "name_match", "version_match", "collapse_addr_hash", "gameaddr", "white", "proxy", "dedicated", "linux", "gamedir"][kind]
}

fn text(rng: &mut Rng) -> String { rng.text1(12, &['\\', '\u{0}']) }

/// a filter of the given kind with a random value, and its wire value
fn make_filter(rng: &mut Rng, kind: usize) -> (Filter, String) {
    let b = rng.bool();
    let bs = (if b { "1" } else { "0" }).to_string();
    match kind {
        0 => (Filter::IsSecured(b), bs),
        1 => {
            let t = text(rng);
            (Filter::RunsMap(t.clone()), t)
        }
        2 => (Filter::CanHavePassword(b), bs),
        3 => (Filter::CanBeEmpty(b), bs),
        4 => (Filter::IsEmpty(b), bs),
        5 => (Filter::CanBeFull(b), bs),
        6 => {
            let v = rng.b_u32();
            (Filter::RunsAppID(v), v.to_string())
        }
        7 => {
            let v = rng.b_u32();
            (Filter::NotAppID(v), v.to_string())
        }
        8 => {
            // an empty tag list restricts nothing: as a later insertion it still replaces an earlier list
            let n = if rng.chance(1, 5) { 0 } else { rng.usize(1, 3) };
            let tags: Vec<String> = (0 .. n).map(|_| rng.text1(6, &['\\', '\u{0}', ','])).collect();
            (Filter::HasTags(tags.clone()), tags.join(","))
        }
        9 => {
            let t = text(rng);
            (Filter::MatchName(t.clone()), t)
        }
        10 => {
            let t = text(rng);
            (Filter::MatchVersion(t.clone()), t)
        }
        11 => (Filter::RestrictUniqueIP(b), bs),
        12 => {
            let t = format!("{}.{}.{}.{}:{}", rng.u8(), rng.u8(), rng.u8(), rng.u8(), rng.below(65536));
            (Filter::OnAddress(t.clone()), t)
        }
        13 => (Filter::Whitelisted(b), bs),
        14 => (Filter::SpectatorProxy(b), bs),
        15 => (Filter::IsDedicated(b), bs),
        16 => (Filter::RunsLinux(b), bs),
        _ => {
            let t = text(rng);
            (Filter::HasGameDir(t.clone()), t)
        }
    }
}

type Group = BTreeMap<String, String>;

/// reference parser of the request (Master Server Query Protocol grammar)
fn parse_request(d: &[u8]) -> Result<(u8, String, Group, Group, Group), String> {
    if d.len() < 3 || d[0] != 0x31 {
        return Err("does not start with 0x31".into());
    }
    let region = d[1];
    let rest = &d[2 ..];
    let nul = rest.iter().position(|b| *b == 0).ok_or("seed address not NUL-terminated")?;
    let seed = String::from_utf8(rest[.. nul].to_vec()).map_err(|_| "seed not UTF-8")?;
    let f = &rest[nul + 1 ..];
    if f.last() != Some(&0) {
        return Err("filter not NUL-terminated".into());
    }
    let f = &f[.. f.len() - 1];
    if f.contains(&0) {
        return Err("NUL inside the filter string".into());
    }
    let s = String::from_utf8(f.to_vec()).map_err(|_| "filter not UTF-8")?;
    let mut plain = Group::new();
    let mut nand = Group::new();
    let mut nor = Group::new();
    if s.is_empty() {
        return Ok((region, seed, plain, nand, nor));
    }
    if !s.starts_with('\\') {
        return Err(format!("filter does not start with a backslash: {s:?}"));
    }
    let toks: Vec<&str> = s[1 ..].split('\\').collect();
    if toks.len() % 2 != 0 {
        return Err(format!("odd number of backslash-separated tokens: {s:?}"));
    }
    let pairs: Vec<(&str, &str)> = toks.chunks(2).map(|c| (c[0], c[1])).collect();
    let mut i = 0;
    while i < pairs.len() {
        let (k, v) = pairs[i];
        i += 1;
        if k == "nand" || k == "nor" {
            let n: usize = v.parse().map_err(|_| format!("group count {v:?} is not a number"))?;
            if i + n > pairs.len() {
                return Err(format!("group \\{k}\\{n} announces more conditions than follow"));
            }
            let g = if k == "nand" { &mut nand } else { &mut nor };
            for (gk, gv) in &pairs[i .. i + n] {
                if *gk == "nand" || *gk == "nor" {
                    return Err("nested group".into());
                }
                if g.insert(gk.to_string(), gv.to_string()).is_some() {
                    return Err(format!("key {gk} twice in one group"));
                }
            }
            i += n;
        } else if plain.insert(k.to_string(), v.to_string()).is_some() {
            return Err(format!("key {k} twice in the plain group"));
        }
    }
    Ok((region, seed, plain, nand, nor))
}

fn addr() -> SocketAddr { SocketAddr::new(IpAddr::V4(Ipv4Addr::new(10, 16, 0, 1)), 27011) }

impl C16 {
    /// `seq`: (kind, group) insertions; group 0 plain, 1 nand, 2 nor
    fn filter_case(&self, cx: &mut Cx, seq: &[(usize, usize)]) {
        let mut sf = SearchFilters::new();
        let mut model: [Group; 3] = [Group::new(), Group::new(), Group::new()];
        let mut desc = Vec::new();
        let mut empty_tags_in_special_group = false;
        for (kind, group) in seq {
            let (f, wire) = make_filter(&mut cx.rng, *kind);
            desc.push(format!("{}({f:?})", ["insert", "insert_nand", "insert_nor"][*group]));
            sf = match group {
                0 => sf.insert(f),
                1 => sf.insert_nand(f),
                _ => sf.insert_nor(f),
            };
            if *kind == 8 && wire.is_empty() {
                // HasTags(vec![]) writes nothing. In the plain group that is simply "no tag filter" (and it has replaced
                // whatever list was there); inside NAND/NOR the announced size still counts it: observe-only
                if *group == 0 {
                    model[0].remove(key_of(8));
                    cx.count("empty-tag-list-in-the-plain-group");
                } else {
                    empty_tags_in_special_group = true;
                }
            } else {
                model[*group].insert(key_of(*kind).to_string(), wire);
            }
        }
        if empty_tags_in_special_group {
            cx.eval();
            cx.observe("HasTags(vec![]) inside a NAND/NOR group");
            return;
        }
        let (region, rbyte) = REGIONS[cx.rng.below(9) as usize];
        let seed_ip = format!("{}.{}.{}.{}", cx.rng.u8(), cx.rng.u8(), cx.rng.u8(), cx.rng.u8());
        let seed_port = cx.rng.b_u16();
        let server = PagesServer { pages: vec![page(&[(Ipv4Addr::new(0, 0, 0, 0), 0)])], requests: vec![] };
        let a = addr();
        let run = run_with(server, DEFAULT_STEP_LIMIT, || ValveMasterServer::new(&a).and_then(|mut m| m.query_specific(region, &Some(sf.clone()), &seed_ip, seed_port)));
        cx.eval();
        let reqs = run.server.borrow().requests.clone();
        let detail = |what: String| json!({"what": what, "insertions": desc, "request": reqs.first().map(|r| String::from_utf8_lossy(r).to_string()), "request_hex": reqs.first().map(|r| hex(r))});
        match &run.outcome {
            Outcome::Panicked(p) => {
                cx.violation(format!("C16 panic at {} msg=\"{}\"", p.loc, norm_msg(&p.msg)), || detail(p.msg.clone()));
                return;
            }
            Outcome::StepLimit { .. } => return,
            Outcome::Returned(Err(e)) => {
                cx.violation(format!("C16 filter-query-failed kind={}", kind_name(&e.kind)), || detail(format!("{:?}", e.kind)));
                return;
            }
            Outcome::Returned(Ok(_)) => {}
        }
        if reqs.len() != 1 {
            cx.violation("C16 filter request-count", || detail(format!("{} requests", reqs.len())));
            return;
        }
        let groups_used = seq.iter().map(|(_, g)| *g).collect::<std::collections::BTreeSet<_>>();
        let gclass = format!("{}{}{}", if groups_used.contains(&0) { "P" } else { "" }, if groups_used.contains(&1) { "A" } else { "" }, if groups_used.contains(&2) { "O" } else { "" });
        match parse_request(&reqs[0]) {
            Err(why) => {
                let class = if why.contains("backslash") { "grammar missing-backslash" } else if why.contains("count") || why.contains("announces") { "grammar group-count" } else { "grammar" };
                cx.violation(format!("C16 filter {class} groups={gclass}"), || detail(why.clone()));
            }
            Ok((rb, seed, plain, nand, nor)) => {
                if rb != rbyte {
                    cx.violation("C16 filter wrong-region", || detail(format!("region byte {rb:#x} expected {rbyte:#x}")));
                } else if seed != format!("{seed_ip}:{seed_port}") {
                    cx.violation("C16 filter wrong-seed", || detail(format!("seed {seed:?}")));
                } else if plain != model[0] {
                    cx.violation(format!("C16 filter plain-group-differs groups={gclass}"), || detail(format!("plain {plain:?} expected {:?}", model[0])));
                } else if nand != model[1] || nor != model[2] {
                    let swapped = nand == model[2] && nor == model[1];
                    cx.violation(format!("C16 filter {} groups={gclass}", if swapped { "nand-nor-swapped" } else { "group-differs" }), || detail(format!("nand {nand:?} nor {nor:?} expected nand {:?} nor {:?}", model[1], model[2])));
                } else {
                    cx.nontrivial(hash64(&reqs[0]));
                    cx.sample(|| json!({"insertions": desc, "request": String::from_utf8_lossy(&reqs[0]).to_string()}));
                }
            }
        }
    }

    fn paging_case(&self, cx: &mut Cx) {
        let n_pages = cx.rng.usize(1, 6);
        let mut pages: Vec<Vec<Addr>> = Vec::new();
        let gen_addr = |rng: &mut Rng| (Ipv4Addr::new(rng.range(1, 223) as u8, rng.u8(), rng.u8(), rng.u8()), rng.range(1, 65535) as u16);
        let term = (Ipv4Addr::new(0, 0, 0, 0), 0u16);
        // where the listing ends: terminator as last entry of the last page, as the only entry, an empty page, or never (server falls silent)
        let ending = cx.rng.below(5);
        let mut no_progress = false;
        for k in 0 .. n_pages {
            let n = match cx.rng.below(5) {
                0 => 1,
                1 => 230,
                2 => 2,
                _ => cx.rng.usize(1, 40),
            };
            let mut e: Vec<Addr> = (0 .. n).map(|_| gen_addr(&mut cx.rng)).collect();
            // one host's servers often straddle a page boundary: consecutive pages ending on the same address but for
            // the port (or the same port on another address) are still progress
            if let Some(prev) = pages.last().and_then(|p: &Vec<Addr>| p.last()).copied() {
                if prev != term {
                    match cx.rng.below(6) {
                        0 => *e.last_mut().unwrap() = (prev.0, if prev.1 == 65535 { 1 } else { prev.1 + 1 }),
                        1 => *e.last_mut().unwrap() = (Ipv4Addr::new(prev.0.octets()[0], prev.0.octets()[1], prev.0.octets()[2], prev.0.octets()[3] ^ 1), prev.1),
                        // a master that does not advance: the page ends on the very address it was asked to continue from;
                        // its entries still belong to the listing, and the query stops there
                        2 => {
                            *e.last_mut().unwrap() = prev;
                            no_progress = true;
                        }
                        _ => {}
                    }
                }
            }
            // avoid accidental "no progress" (last == seed) and duplicates of the terminator
            if k + 1 == n_pages {
                match ending {
                    0 | 1 => e.push(term),
                    2 => e = vec![term],
                    3 => e = vec![],
                    _ => {}
                }
            }
            pages.push(e);
        }
        let mid_terminator = cx.rng.chance(1, 20);
        if mid_terminator && pages[0].len() > 2 {
            let at = cx.rng.usize(0, pages[0].len() - 2);
            pages[0].insert(at, term);
        }
        let server = PagesServer { pages: pages.iter().map(|p| page(p)).collect(), requests: vec![] };
        let (region, rbyte) = REGIONS[cx.rng.below(9) as usize];
        let a = addr();
        let run = run_with(server, DEFAULT_STEP_LIMIT, || ValveMasterServer::new(&a).and_then(|mut m| m.query(region, None)));
        cx.eval();
        let reqs = run.server.borrow().requests.clone();
        // reference
        let mut expected: Vec<Addr> = Vec::new();
        let mut exp_seeds = vec!["0.0.0.0:0".to_string()];
        let mut complete = false;
        for p in &pages {
            if p.is_empty() {
                complete = true;
                break;
            }
            expected.extend(p.iter().cloned());
            let last = *p.last().unwrap();
            if last == term {
                expected.pop();
                complete = true;
                break;
            }
            let seed = format!("{}:{}", last.0, last.1);
            if exp_seeds.last() == Some(&seed) {
                complete = true;
                break;
            }
            exp_seeds.push(seed);
        }
        let shape = format!("pages={n_pages}|ending={ending}|region={rbyte}");
        let detail = |what: String| json!({"what": what, "pages": pages.iter().map(|p| p.len()).collect::<Vec<_>>(), "ending": ending, "requests": reqs.iter().map(|r| String::from_utf8_lossy(r).to_string()).collect::<Vec<_>>()});
        if mid_terminator {
            cx.observe("terminator in the middle of a page");
            return;
        }
        match &run.outcome {
            Outcome::Panicked(p) => cx.violation(format!("C16 panic at {} msg=\"{}\"", p.loc, norm_msg(&p.msg)), || detail(p.msg.clone())),
            Outcome::StepLimit { .. } => cx.violation("C16 paging step-limit", || detail("step".into())),
            Outcome::Returned(res) => {
                // seeds
                let seeds: Vec<String> = reqs.iter().map(|r| parse_request(r).map(|x| x.1).unwrap_or_else(|e| format!("<unparsable: {e}>"))).collect();
                if !complete {
                    // the server fell silent before a terminator: the query must fail with a receive error after asking once more
                    exp_seeds.truncate(pages.len() + 1);
                    match res {
                        Err(e) if e.kind == gamedig::GDErrorKind::PacketReceive => {
                            if seeds != exp_seeds {
                                cx.violation("C16 paging wrong-seed", || detail(format!("seeds {seeds:?} expected {exp_seeds:?}")));
                            } else {
                                cx.nontrivial(hash64(shape.as_bytes()) ^ hash64(&reqs.concat()));
                            }
                        }
                        other => cx.violation("C16 paging incomplete-listing-not-an-error", || detail(format!("{:?}", other.as_ref().map(|v| v.len())))),
                    }
                    return;
                }
                match res {
                    Err(e) => cx.violation(format!("C16 paging complete-listing-failed kind={}", kind_name(&e.kind)), || detail(format!("{:?}", e.kind))),
                    Ok(list) => {
                        let got: Vec<Addr> = list
                            .iter()
                            .map(|(ip, p)| {
                                (match ip {
                                    IpAddr::V4(v) => *v,
                                    _ => Ipv4Addr::new(255, 255, 255, 255),
                                }, *p)
                            })
                            .collect();
                        if got != expected {
                            let class = if got.contains(&term) { "terminator-returned" } else if got.len() < expected.len() { "addresses-lost" } else if got.len() > expected.len() { "addresses-added" } else { "addresses-differ" };
                            cx.violation(format!("C16 paging {class}"), || detail(format!("got {} expected {}", got.len(), expected.len())));
                        } else if seeds != exp_seeds {
                            let class = if seeds.len() > exp_seeds.len() { "request-after-terminator" } else if seeds.len() < exp_seeds.len() { "stopped-early" } else { "wrong-seed" };
                            cx.violation(format!("C16 paging {class}"), || detail(format!("seeds {seeds:?} expected {exp_seeds:?}")));
                        } else if reqs.iter().any(|r| r.get(1) != Some(&rbyte)) {
                            cx.violation("C16 paging wrong-region", || detail("region".into()));
                        } else {
                            cx.shape(&shape);
                            cx.nontrivial(hash64(shape.as_bytes()) ^ hash64(&reqs.concat()));
                            cx.count("paging-ok");
                            if no_progress {
                                cx.count("paging-ok-with-a-page-that-does-not-advance");
                            }
                        }
                    }
                }
            }
        }
    }
}

const TERM: Addr = (Ipv4Addr::new(0, 0, 0, 0), 0u16);

/// a listing of 1-4 pages that ends properly (terminator as last entry, as only entry, or an empty page)
fn gen_complete_listing(rng: &mut Rng) -> Vec<Vec<Addr>> {
    let n_pages = rng.usize(1, 4);
    let ending = rng.below(3);
    let mut pages: Vec<Vec<Addr>> = Vec::new();
    for k in 0 .. n_pages {
        let n = match rng.below(4) {
            0 => 1,
            1 => 230,
            _ => rng.usize(1, 30),
        };
        let mut e: Vec<Addr> = (0 .. n).map(|_| (Ipv4Addr::new(rng.range(1, 223) as u8, rng.u8(), rng.u8(), rng.u8()), rng.range(1, 65535) as u16)).collect();
        if k + 1 == n_pages {
            match ending {
                0 => e.push(TERM),
                1 => e = vec![TERM],
                _ => e = vec![],
            }
        }
        pages.push(e);
    }
    pages
}

/// reference paging: (addresses, seeds of the requests, complete)
fn reference_paging(pages: &[Vec<Addr>]) -> (Vec<Addr>, Vec<String>, bool) {
    let mut expected: Vec<Addr> = Vec::new();
    let mut seeds = vec!["0.0.0.0:0".to_string()];
    for p in pages {
        if p.is_empty() {
            return (expected, seeds, true);
        }
        expected.extend(p.iter().cloned());
        let last = *p.last().unwrap();
        if last == TERM {
            expected.pop();
            return (expected, seeds, true);
        }
        let seed = format!("{}:{}", last.0, last.1);
        if seeds.last() == Some(&seed) {
            return (expected, seeds, true);
        }
        seeds.push(seed);
    }
    (expected, seeds, false)
}

impl C16 {
    /// several complete queries on one ValveMasterServer instance: each starts from the 0.0.0.0:0 seed again
    fn reuse_case(&self, cx: &mut Cx) {
        let k = cx.rng.usize(2, 3);
        let mut listings = Vec::new();
        let mut served: Vec<Vec<Addr>> = Vec::new();
        for _ in 0 .. k {
            let pages = gen_complete_listing(&mut cx.rng);
            let (exp, seeds, complete) = reference_paging(&pages);
            debug_assert!(complete);
            served.extend(pages[.. seeds.len().min(pages.len())].iter().cloned());
            listings.push((exp, seeds));
        }
        let server = PagesServer { pages: served.iter().map(|p| page(p)).collect(), requests: vec![] };
        let regions: Vec<(Region, u8)> = (0 .. k).map(|_| REGIONS[cx.rng.below(9) as usize]).collect();
        let a = addr();
        let regs = regions.clone();
        let run = run_with(server, DEFAULT_STEP_LIMIT, move || {
            ValveMasterServer::new(&a).and_then(|mut m| {
                let mut out = Vec::new();
                for (r, _) in &regs {
                    out.push(m.query(*r, None)?);
                }
                Ok(out)
            })
        });
        cx.eval();
        let reqs = run.server.borrow().requests.clone();
        let seeds: Vec<String> = reqs.iter().map(|r| parse_request(r).map(|x| x.1).unwrap_or_else(|e| format!("<unparsable: {e}>"))).collect();
        let exp_seeds: Vec<String> = listings.iter().flat_map(|l| l.1.iter().cloned()).collect();
        let exp_regions: Vec<u8> = listings.iter().zip(&regions).flat_map(|(l, r)| std::iter::repeat(r.1).take(l.1.len())).collect();
        let detail = |what: String| json!({"what": what, "queries_on_one_instance": k, "pages_served": served.iter().map(|p| p.len()).collect::<Vec<_>>(), "requests": reqs.iter().map(|r| String::from_utf8_lossy(r).to_string()).collect::<Vec<_>>()});
        match &run.outcome {
            Outcome::Panicked(p) => cx.violation(format!("C16 panic at {} msg=\"{}\"", p.loc, norm_msg(&p.msg)), || detail(p.msg.clone())),
            Outcome::StepLimit { .. } => cx.violation("C16 paging step-limit", || detail("step".into())),
            Outcome::Returned(Err(e)) => cx.violation(format!("C16 paging reused-instance complete-listing-failed kind={}", kind_name(&e.kind)), || detail(format!("seeds {seeds:?} expected {exp_seeds:?}"))),
            Outcome::Returned(Ok(lists)) => {
                for (i, (list, (exp, _))) in lists.iter().zip(&listings).enumerate() {
                    let got: Vec<Addr> = list.iter().map(|(ip, p)| (match ip { IpAddr::V4(v) => *v, _ => Ipv4Addr::new(255, 255, 255, 255) }, *p)).collect();
                    if &got != exp {
                        cx.violation("C16 paging reused-instance addresses-differ", || detail(format!("query {i}: got {} expected {}", got.len(), exp.len())));
                        return;
                    }
                }
                if seeds != exp_seeds {
                    cx.violation("C16 paging reused-instance wrong-seed", || detail(format!("seeds {seeds:?} expected {exp_seeds:?}")));
                } else if reqs.iter().map(|r| r.get(1).copied().unwrap_or(0)).collect::<Vec<_>>() != exp_regions {
                    cx.violation("C16 paging reused-instance wrong-region", || detail("region".into()));
                } else {
                    cx.shape(&format!("reuse={k}"));
                    cx.nontrivial(hash64(&reqs.concat()) ^ 0x2e05e);
                    cx.count("paging-reuse-ok");
                }
            }
        }
    }
}

fn seq_from(mut code: u64, len: usize) -> Vec<(usize, usize)> {
    (0 .. len)
        .map(|_| {
            let x = (code % 54) as usize;
            code /= 54;
            (x / 3, x % 3)
        })
        .collect()
}

const L1: u64 = 54;
const L2: u64 = 54 * 54;
const L3: u64 = 54 * 54 * 54;

impl C16 {
    fn n_seq(&self, _tier: Tier) -> u64 { L1 + L2 + L3 }
    fn n_random(&self, tier: Tier) -> u64 { tier.pick(40_000, 300_000) }
}

impl Check for C16 {
    fn id(&self) -> &'static str { "C16" }
    fn rule(&self) -> String {
        "filters: all insertion sequences of length <= 3 (160 434, both tiers) over 18 filter kinds x {insert, insert_nand, insert_nor} with sampled values and regions, plus sampled longer sequences (among them groups of 8-18 different kinds); the request recorded by the transport is parsed by a reference parser of the Master Server Query Protocol grammar and (region, seed, plain, NAND, NOR groups) must equal a reference model of the builder (later insert of a kind replaces the earlier). paging: histories of 1-6 pages x 1-230 entries ending by a terminator as last entry / only entry / an empty page / never: returned list = concatenation without the terminator, request k+1 seeded with the last address of page k, nothing requested after the terminator, silence before a terminator is a receive error; 2-3 complete queries on one service instance each start again from the 0.0.0.0:0 seed. non-trivial = parse + comparison passed; distinct by request bytes".into()
    }
    fn assumptions(&self) -> Vec<String> { vec!["filter keys and grammar as in DESIGN.md Appendix A.9".into(), "domain: string values without backslash/NUL, tags without comma; HasTags(vec![]) inside a NAND/NOR group and a terminator in the middle of a page are observe-only".into()] }
    fn total_cases(&self, tier: Tier) -> u64 { self.n_seq(tier) + self.n_random(tier) }
    fn exhaustive(&self, _tier: Tier) -> Option<bool> { Some(true) }
    fn case_label(&self, tier: Tier, idx: u64) -> String { if idx < self.n_seq(tier) { "filter-sequences".into() } else { "random".into() } }
    fn run_case(&mut self, cx: &mut Cx) {
        let idx = cx.idx;
        if idx < L1 {
            cx.count("seq-len1");
            let s = seq_from(idx, 1);
            self.filter_case(cx, &s);
        } else if idx < L1 + L2 {
            cx.count("seq-len2");
            let s = seq_from(idx - L1, 2);
            self.filter_case(cx, &s);
        } else if idx < self.n_seq(cx.tier) {
            cx.count("seq-len3");
            let code = idx - L1 - L2;
            let s = seq_from(code, 3);
            self.filter_case(cx, &s);
        } else if (idx - self.n_seq(cx.tier)) % 2 == 0 {
            let s: Vec<(usize, usize)> = if cx.rng.chance(1, 4) {
                // a crowded group: 8-18 different kinds in one of the three groups (its announced size then has two
                // digits), a few more elsewhere
                let g = cx.rng.below(3) as usize;
                let mut kinds: Vec<usize> = (0 .. 18).collect();
                cx.rng.shuffle(&mut kinds);
                let n = cx.rng.usize(8, 18);
                let mut v: Vec<(usize, usize)> = kinds[.. n].iter().map(|k| (*k, g)).collect();
                for _ in 0 .. cx.rng.usize(0, 4) {
                    v.push((cx.rng.below(18) as usize, cx.rng.below(3) as usize));
                }
                cx.rng.shuffle(&mut v);
                cx.count("seq-crowded-group");
                v
            } else {
                let len = cx.rng.usize(4, 12);
                (0 .. len).map(|_| (cx.rng.below(18) as usize, cx.rng.below(3) as usize)).collect()
            };
            cx.count("seq-longer");
            self.filter_case(cx, &s);
        } else if (idx - self.n_seq(cx.tier)) % 8 == 7 {
            self.reuse_case(cx);
        } else {
            self.paging_case(cx);
        }
    }
    fn sufficient(&self, tier: Tier, m: &Stats) -> Result<(), String> {
        let g = |k: &str| m.counters.get(k).copied().unwrap_or(0);
        if g("seq-len1") < L1 || g("seq-len2") < L2 || g("seq-len3") < L3 {
            return Err(format!("filter sequence enumeration incomplete: {} {} {}", g("seq-len1"), g("seq-len2"), g("seq-len3")));
        }
        if g("paging-ok") < 500 {
            return Err(format!("only {} complete paging histories compared", g("paging-ok")));
        }
        Ok(())
    }
    fn extra_coverage(&self, tier: Tier, m: &Stats) -> Value { json!({"sequences_len1": m.counters.get("seq-len1"), "sequences_len2": m.counters.get("seq-len2"), "sequences_len3": m.counters.get("seq-len3"), "len3_exhaustive": true, "paging_histories_ok": m.counters.get("paging-ok"), "histories_with_a_page_that_does_not_advance_ok": m.counters.get("paging-ok-with-a-page-that-does-not-advance"), "reused_instance_histories_ok": m.counters.get("paging-reuse-ok")}) }
}
