//! C03 — Minecraft status replies decode exactly; auto-detect order holds.

use crate::core::framework::{Check, Cx, Stats, Tier};
use crate::core::monitor::{kind_name, norm_msg, run_with, Outcome, DEFAULT_STEP_LIMIT};
use crate::core::net::{hex, Ev};
use crate::core::rng::hash64;
use crate::models::minecraft::*;
use crate::props::c02::addr;
use gamedig::games::minecraft::{self, JavaResponse, LegacyGroup};
use gamedig::verif_hook::Kind;
use gamedig::GDErrorKind;
use serde_json::{json, Value};
use std::net::{IpAddr, Ipv4Addr};

pub struct C03;

/// compare a JavaResponse; `desc_json`: Some(v) = compare the description as JSON against v
fn diff_java(got: &JavaResponse, exp: &JavaResponse, desc_json: Option<&Value>) -> Option<String> {
    macro_rules! f {
        ($($n:ident),*) => { $( if got.$n != exp.$n { return Some(stringify!($n).to_string()); } )* };
    }
    f!(game_version, protocol_version, players_maximum, players_online, players, favicon, previews_chat, enforces_secure_chat, server_type);
    match desc_json {
        Some(v) => match serde_json::from_str::<Value>(&got.description) {
            Ok(g) if &g == v => None,
            _ => Some("description".into()),
        },
        None => (got.description != exp.description).then(|| "description".to_string()),
    }
}

fn garbage(cx: &mut Cx) -> Vec<u8> {
    match cx.rng.below(4) {
        0 => cx.rng.bytes(20),
        1 => vec![0xff, 0x00, 0x05, 0x00, 0x41],
        2 => vec![0x05, 0x00, 0x03, b'{', b'}', b'!'],
        _ => b"HTTP/1.1 400 Bad Request\r\n\r\n".to_vec(),
    }
}

impl C03 {
    fn decode_case(&self, cx: &mut Cx) {
        let which = cx.rng.below(6);
        let ts = gamedig::TimeoutSettings::new(None, None, None, cx.rng.below(2) as usize).ok();
        let a = addr(25565);
        let mut answers: [Option<Vec<u8>>; 5] = Default::default();
        let na = [NonAnswer::Silent; 5];
        cx.eval();
        match which {
            0 => {
                let st = JavaState::gen(&mut cx.rng);
                let stream = st.stream(&mut cx.rng);
                answers[0] = Some(stream.clone());
                let (exp, dj) = st.expected();
                let run = run_with(McServerModel::new(answers, na, vec![]), DEFAULT_STEP_LIMIT, || minecraft::protocol::query_java(&a, ts, None));
                let shape = format!("java|sample={}|desc={}|fav={}|pc={:?}|esc={:?}", match &st.sample { None => "absent", Some(None) => "null", Some(Some(v)) if v.is_empty() => "empty", _ => "some" }, match &st.description { None => "absent", Some(Value::String(_)) => "string", _ => "object" }, st.favicon.is_some(), st.previews_chat, st.enforces_secure_chat);
                cx.shape(&shape);
                let detail = |w: String| json!({"what": w, "shape": shape, "stream": String::from_utf8_lossy(&stream).to_string()});
                match run.outcome {
                    Outcome::Returned(Ok(got)) => match diff_java(&got, &exp, Some(&dj)) {
                        None => {
                            cx.nontrivial(hash64(&stream));
                            cx.sample(|| json!({"variant": "java", "shape": shape, "json": String::from_utf8_lossy(&stream[stream.len().min(4) ..]).chars().take(300).collect::<String>()}));
                        }
                        Some(f) => cx.violation(format!("C03 java wrong-field field={f}"), || detail(f.clone())),
                    },
                    Outcome::Returned(Err(e)) => cx.violation(format!("C03 java valid-reply-rejected kind={}", kind_name(&e.kind)), || detail(format!("{:?}", e.kind))),
                    Outcome::Panicked(p) => cx.violation(format!("C03 panic at {} msg=\"{}\"", p.loc, norm_msg(&p.msg)), || detail(p.msg.clone())),
                    Outcome::StepLimit { .. } => cx.violation("C03 step-limit", || detail("step".into())),
                }
            }
            1 => {
                let st = BedrockState::gen(&mut cx.rng);
                let d = st.datagram();
                if d.len() > 1024 {
                    cx.observe("bedrock pong larger than 1024 bytes");
                    return;
                }
                answers[1] = Some(d.clone());
                let shape = format!("bedrock|fields={}|mode={}", st.fields.len(), st.known_mode);
                cx.shape(&shape);
                let run = run_with(McServerModel::new(answers, na, vec![]), DEFAULT_STEP_LIMIT, || minecraft::protocol::query_bedrock(&a, ts));
                let detail = |w: String| json!({"what": w, "shape": shape, "datagram": hex(&d), "text": st.fields.join(";")});
                match run.outcome {
                    Outcome::Returned(r) if !st.known_mode => {
                        cx.observe(&format!("bedrock unknown game mode string -> {}", match &r { Ok(_) => "Ok", Err(e) => kind_name(&e.kind) }));
                    }
                    Outcome::Returned(Ok(got)) => {
                        if got == st.expected() {
                            cx.nontrivial(hash64(&d));
                            cx.sample(|| json!({"variant": "bedrock", "text": st.fields.join(";")}));
                        } else {
                            cx.violation("C03 bedrock wrong-field", || detail(format!("got {got:?}")));
                        }
                    }
                    Outcome::Returned(Err(e)) => cx.violation(format!("C03 bedrock valid-reply-rejected kind={}", kind_name(&e.kind)), || detail(format!("{:?}", e.kind))),
                    Outcome::Panicked(p) => cx.violation(format!("C03 panic at {} msg=\"{}\"", p.loc, norm_msg(&p.msg)), || detail(p.msg.clone())),
                    Outcome::StepLimit { .. } => cx.violation("C03 step-limit", || detail("step".into())),
                }
            }
            5 => {
                // the short FE 01 ping answered in the section-sign-1 layout (what 1.4-1.6 servers send to it):
                // the 1.4 query must skip the marker and return that status
                let st = LegacyState::gen(&mut cx.rng, LegacyGroup::V1_6);
                let stream = st.stream();
                answers[3] = Some(stream.clone());
                cx.shape("legacy|V1_4-request|V1_6-layout");
                let run = run_with(McServerModel::new(answers, na, vec![]), DEFAULT_STEP_LIMIT, || minecraft::protocol::query_legacy_specific(LegacyGroup::V1_4, &a, ts));
                let detail = |w: String| json!({"what": w, "shape": "1.4 request, 1.6-layout reply", "stream": hex(&stream), "state": format!("{st:?}")});
                match run.outcome {
                    Outcome::Returned(Ok(got)) => {
                        let mut exp = st.expected();
                        cx.count(&format!("1.4-request-1.6-layout label={:?}", got.server_type));
                        exp.server_type = got.server_type.clone();
                        match diff_java(&got, &exp, None) {
                            None => {
                                cx.count("legacy-1.4-request-1.6-layout-ok");
                                cx.nontrivial(hash64(&stream) ^ 0x14);
                            }
                            Some(f) => cx.violation(format!("C03 legacy-V1_4-request-V1_6-layout wrong-field field={f}"), || detail(f.clone())),
                        }
                    }
                    Outcome::Returned(Err(e)) => cx.violation(format!("C03 legacy-V1_4-request-V1_6-layout valid-reply-rejected kind={}", kind_name(&e.kind)), || detail(format!("{:?}", e.kind))),
                    Outcome::Panicked(p) => cx.violation(format!("C03 panic at {} msg=\"{}\"", p.loc, norm_msg(&p.msg)), || detail(p.msg.clone())),
                    Outcome::StepLimit { .. } => cx.violation("C03 step-limit", || detail("step".into())),
                }
            }
            _ => {
                let group = [LegacyGroup::V1_6, LegacyGroup::V1_4, LegacyGroup::VB1_8][(which - 2) as usize];
                let st = LegacyState::gen(&mut cx.rng, group);
                let stream = st.stream();
                answers[2 + (which - 2) as usize] = Some(stream.clone());
                let shape = format!("legacy|{group:?}");
                cx.shape(&shape);
                let run = run_with(McServerModel::new(answers, na, vec![]), DEFAULT_STEP_LIMIT, || minecraft::protocol::query_legacy_specific(group, &a, ts));
                let detail = |w: String| json!({"what": w, "shape": shape, "stream": hex(&stream), "state": format!("{st:?}")});
                match run.outcome {
                    Outcome::Returned(Ok(got)) => match diff_java(&got, &st.expected(), None) {
                        None => {
                            cx.nontrivial(hash64(&stream));
                            cx.sample(|| json!({"variant": format!("{group:?}"), "state": format!("{st:?}")}));
                        }
                        Some(f) => cx.violation(format!("C03 legacy-{group:?} wrong-field field={f}"), || detail(f.clone())),
                    },
                    Outcome::Returned(Err(e)) => cx.violation(format!("C03 legacy-{group:?} valid-reply-rejected kind={}", kind_name(&e.kind)), || detail(format!("{:?}", e.kind))),
                    Outcome::Panicked(p) => cx.violation(format!("C03 panic at {} msg=\"{}\"", p.loc, norm_msg(&p.msg)), || detail(p.msg.clone())),
                    Outcome::StepLimit { .. } => cx.violation("C03 step-limit", || detail("step".into())),
                }
            }
        }
    }

    /// auto-detect: subset of variants; `legacy_only`: query_legacy over its three
    fn order_case(&self, cx: &mut Cx, subset: u32, legacy_only: bool, via_game_module: bool) {
        let java = JavaState::gen(&mut cx.rng);
        let bed = loop {
            let b = BedrockState::gen(&mut cx.rng);
            if b.known_mode && b.datagram().len() <= 1024 {
                break b;
            }
        };
        let l16 = LegacyState::gen(&mut cx.rng, LegacyGroup::V1_6);
        let l14 = LegacyState::gen(&mut cx.rng, LegacyGroup::V1_4);
        let lb18 = LegacyState::gen(&mut cx.rng, LegacyGroup::VB1_8);
        let jstream = java.stream(&mut cx.rng);
        let all: [Vec<u8>; 5] = [jstream.clone(), bed.datagram(), l16.stream(), l14.stream(), lb18.stream()];
        let mut answers: [Option<Vec<u8>>; 5] = Default::default();
        for (i, a) in all.iter().enumerate() {
            if subset & (1 << i) != 0 {
                answers[i] = Some(a.clone());
            }
        }
        let mut na = [NonAnswer::Silent; 5];
        for n in na.iter_mut() {
            *n = *cx.rng.pick(&[NonAnswer::Silent, NonAnswer::CloseEmpty, NonAnswer::Garbage, NonAnswer::Truncated, NonAnswer::Refuse]);
        }
        let g = garbage(cx);
        let retries = cx.rng.below(2) as usize;
        let ts = gamedig::TimeoutSettings::new(None, None, None, retries).ok();
        let a = addr(25565);
        let ip = IpAddr::V4(Ipv4Addr::new(10, 1, 2, 3));
        // the per-game entry point takes an optional port: absent = each variant's own default port
        let game_port: Option<u16> = match cx.rng.below(3) {
            0 => None,
            1 => Some(25565),
            _ => Some(cx.rng.range(1024, 65535) as u16),
        };
        cx.eval();
        let mut server = McServerModel::new(answers, na, g.clone());
        if legacy_only {
            server.tcp_slots = vec![Variant::L16, Variant::L14, Variant::Lb18];
        }
        let run = if legacy_only {
            run_with(server, DEFAULT_STEP_LIMIT, || minecraft::protocol::query_legacy(&a, ts))
        } else if via_game_module {
            run_with(server, DEFAULT_STEP_LIMIT, || minecraft::query(&ip, game_port))
        } else {
            run_with(server, DEFAULT_STEP_LIMIT, || minecraft::protocol::query(&a, ts, None))
        };
        let order: Vec<Variant> = if legacy_only { vec![Variant::L16, Variant::L14, Variant::Lb18] } else { ORDER.to_vec() };
        let first = order.iter().copied().find(|v| subset & (1 << (*v as u32)) != 0);
        let label = format!("{}|subset={:05b}", if legacy_only { "query_legacy" } else if via_game_module { "games::minecraft::query" } else { "protocol::query" }, subset);
        cx.shape(&label);
        let detail = |w: String, log: &[Ev]| {
            json!({"what": w, "entry": label, "subset_bits(java,bedrock,1.6,1.4,b1.8)": format!("{subset:05b}"), "non_answers": format!("{na:?}"), "garbage": hex(&g),
                   "connections": log.iter().filter_map(|e| match e { Ev::Connect{kind, ok, ..} => Some(format!("{kind:?}{}", if *ok {""} else {"(refused)"})), _ => None }).collect::<Vec<_>>()})
        };
        let log = run.net.log.clone();
        match run.outcome {
            Outcome::Returned(res) => {
                // result
                match (first, &res) {
                    (None, Err(e)) if e.kind == GDErrorKind::AutoQuery => {}
                    (None, other) => {
                        let w = match other {
                            Ok(r) => format!("Ok({:?})", r.server_type),
                            Err(e) => format!("Err({:?})", e.kind),
                        };
                        cx.violation("C03 auto no-variant-answers-but-not-AutoQuery", || detail(w.clone(), &log));
                        return;
                    }
                    (Some(v), Ok(got)) => {
                        let (exp, dj): (JavaResponse, Option<Value>) = match v {
                            Variant::Java => {
                                let (e, d) = java.expected();
                                (e, Some(d))
                            }
                            Variant::Bedrock => (bed.expected_as_java(), None),
                            Variant::L16 => (l16.expected(), None),
                            Variant::L14 => (l14.expected(), None),
                            Variant::Lb18 => (lb18.expected(), None),
                        };
                        if got.server_type != exp.server_type {
                            cx.violation(format!("C03 auto wrong-variant expected={v:?}"), || detail(format!("labelled {:?}", got.server_type), &log));
                            return;
                        }
                        if let Some(f) = diff_java(got, &exp, dj.as_ref()) {
                            cx.violation(format!("C03 auto wrong-field variant={v:?} field={f}"), || detail(f.clone(), &log));
                            return;
                        }
                    }
                    (Some(v), Err(e)) => {
                        cx.violation(format!("C03 auto fails-although-{v:?}-answers kind={}", kind_name(&e.kind)), || detail(format!("{:?}", e.kind), &log));
                        return;
                    }
                }
                // connection log: a prefix of the documented order ending at the answering variant
                let kinds: Vec<Kind> = log.iter().filter_map(|e| match e { Ev::Connect { kind, .. } => Some(*kind), _ => None }).collect();
                let full: Vec<Kind> = order.iter().map(|v| if *v == Variant::Bedrock { Kind::Udp } else { Kind::Tcp }).collect();
                let upto = match first {
                    Some(v) => order.iter().position(|x| *x == v).unwrap() + 1,
                    None => order.len(),
                };
                if kinds != full[.. upto] {
                    cx.violation("C03 auto connection-order", || detail(format!("connections {kinds:?} expected {:?}", &full[.. upto]), &log));
                    return;
                }
                // ports: the given one for every variant, or each variant's documented default
                if via_game_module && !legacy_only {
                    let ports: Vec<u16> = log.iter().filter_map(|e| match e { Ev::Connect { addr, .. } => Some(addr.port()), _ => None }).collect();
                    let exp_ports: Vec<u16> = order[.. upto].iter().map(|v| game_port.unwrap_or(if *v == Variant::Bedrock { 19132 } else { 25565 })).collect();
                    cx.count(if game_port.is_none() { "game-module-default-ports-checked" } else { "game-module-given-port-checked" });
                    if ports != exp_ports {
                        cx.violation(format!("C03 auto wrong-port port-given={}", game_port.is_some()), || detail(format!("ports {ports:?} expected {exp_ports:?}"), &log));
                        return;
                    }
                }
                // and each connection carried its variant's request
                let reqs: Vec<Variant> = run.server.borrow().requests.iter().map(|(_, v, _)| *v).collect();
                let exp_reqs: Vec<Variant> = order[.. upto].iter().copied().filter(|v| !(subset & (1 << (*v as u32)) == 0 && na[*v as usize] == NonAnswer::Refuse && *v != Variant::Bedrock)).collect();
                if reqs != exp_reqs {
                    cx.violation("C03 auto request-order", || detail(format!("requests {reqs:?} expected {exp_reqs:?}"), &log));
                    return;
                }
                cx.nontrivial(hash64(label.as_bytes()) ^ hash64(&jstream) ^ hash64(format!("{na:?}").as_bytes()));
                cx.count(if legacy_only { "order-legacy-ok" } else { "order-auto-ok" });
            }
            Outcome::Panicked(p) => cx.violation(format!("C03 panic at {} msg=\"{}\"", p.loc, norm_msg(&p.msg)), || detail(p.msg.clone(), &log)),
            Outcome::StepLimit { .. } => cx.violation("C03 step-limit", || detail("step".into(), &log)),
        }
    }
}

impl Check for C03 {
    fn id(&self) -> &'static str { "C03" }
    fn memcheck_plan(&self, tier: Tier) -> Option<(crate::core::framework::MemMode, Vec<(u64, u64)>)> {
        if tier != Tier::Thorough {
            return None;
        }
        let total = self.total_cases(tier);
        let n = 1000u64.min(total / 16);
        Some((crate::core::framework::MemMode::Harness, (0 .. 16).map(|i| (i * (total / 16), n)).collect()))
    }
    fn miri_plan(&self, tier: Tier) -> Option<Vec<(u64, u64)>> {
        if tier != Tier::Thorough {
            return None;
        }
        Some((0 .. 16).map(|i| (i * 24, 24)).collect())
    }
    fn rule(&self) -> String {
        "decoding: random Java (JSON with optional members, escapes, chat objects), Bedrock (6-12 fields), legacy 1.6 / 1.4 / beta 1.8 states encoded by independent models and decoded by the matching query (description compared as JSON); the 1.4 ping answered in the 1.6 layout must return that status too. order: a reactive server speaking each of the 32 subsets of the five variants, with hostile non-answers (silence, empty close, garbage, truncation, refused connection) for the others; protocol::query, games::minecraft::query and query_legacy must return the first variant in documented order, labelled as such, AutoQuery iff none, and open connections in exactly that order (the per-game entry point on the given port, or on each variant's default port 25565 / 19132 when none is given). non-trivial = all oracles passed; distinct by stream bytes / (subset, non-answers, state)".into()
    }
    fn assumptions(&self) -> Vec<String> {
        vec![
            "formats from wiki.vg Server List Ping and RakNet unconnected pong as reproduced in DESIGN.md Appendix A.7".into(),
            "domain: i32 protocol numbers, u32 counts, no NUL in legacy text, no section sign in 1.4/beta 1.8 MOTDs, no ';' in Bedrock fields; unknown Bedrock game-mode strings are observe-only".into(),
            "a server refusing the k-th TCP connection stands for 'refuses that variant' (java, 1.6, 1.4, b1.8 in the documented order)".into(),
        ]
    }
    fn total_cases(&self, tier: Tier) -> u64 { tier.pick(300_000, 1_500_000) }
    fn run_case(&mut self, cx: &mut Cx) {
        match cx.idx % 4 {
            0 | 1 => self.decode_case(cx),
            2 => {
                let subset = ((cx.idx / 4) % 32) as u32;
                let via = (cx.idx / 128) % 3 == 0;
                self.order_case(cx, subset, false, via);
            }
            _ => {
                let subset = (((cx.idx / 4) % 8) as u32) << 2;
                self.order_case(cx, subset, true, false);
            }
        }
    }
    fn sufficient(&self, _tier: Tier, m: &Stats) -> Result<(), String> {
        let subsets = m.shapes.keys().filter(|k| k.starts_with("protocol::query|subset=")).count();
        if subsets < 32 {
            return Err(format!("only {subsets} of 32 subsets seen for protocol::query"));
        }
        Ok(())
    }
    fn extra_coverage(&self, _tier: Tier, m: &Stats) -> Value {
        json!({
            "subsets_seen_protocol_query": m.shapes.keys().filter(|k| k.starts_with("protocol::query|subset=")).count(),
            "subsets_seen_game_module": m.shapes.keys().filter(|k| k.starts_with("games::minecraft::query|subset=")).count(),
            "subsets_seen_query_legacy": m.shapes.keys().filter(|k| k.starts_with("query_legacy|subset=")).count(),
            "game_module_default_ports_checked": m.counters.get("game-module-default-ports-checked"),
            "legacy_1_4_request_answered_in_1_6_layout_ok": m.counters.get("legacy-1.4-request-1.6-layout-ok"),
        })
    }
}
