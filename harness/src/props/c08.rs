//! C08 — multi-datagram responses do not depend on arrival order.

use crate::core::framework::{Check, Cx, Stats, Tier};
use crate::core::monitor::{norm_msg, run_with, Outcome, DEFAULT_STEP_LIMIT};
use crate::core::net::hex;
use crate::core::rng::hash64;
use crate::models::gamespy::{Gs1State, Gs3Server, Gs3State, OneShotUdp, GS1_REQUEST};
use crate::models::unreal2::{U2Server, UState};
use crate::models::valve::{self as vm, A2sServer, Behaviour, Encoding, State};
use crate::props::c02::addr;
use gamedig::protocols::types::GatherToggle;
use gamedig::protocols::valve::{Engine, GatheringSettings};
use gamedig::protocols::{gamespy, unreal2, valve};
use serde_json::{json, Value};
use std::collections::HashMap;

pub struct C08;

const KINDS: [&str; 9] = ["valve-source-rules", "valve-source-players", "valve-source-info", "valve-gold-rules", "valve-compressed-rules", "gamespy1", "gamespy3", "unreal2-rules", "unreal2-players"];

fn next_permutation(p: &mut [usize]) -> bool {
    let n = p.len();
    if n < 2 {
        return false;
    }
    let mut i = n - 1;
    while i > 0 && p[i - 1] >= p[i] {
        i -= 1;
    }
    if i == 0 {
        return false;
    }
    let mut j = n - 1;
    while p[j] <= p[i - 1] {
        j -= 1;
    }
    p.swap(i - 1, j);
    p[i ..].reverse();
    true
}

/// A comparable rendering of a query result: Ok(debug text normalised) | Err(kind)
#[derive(Debug, Clone, PartialEq)]
enum R {
    Ok(String),
    Err(String),
    Panic(String),
}

fn norm_debug<T: std::fmt::Debug>(t: &T) -> String { format!("{t:?}") }

/// sort-insensitive rendering for Unreal 2 (multisets of rule values and of players)
fn u2_multiset(r: &unreal2::Response) -> String {
    let mut rules: Vec<(String, Vec<String>)> = r.mutators_and_rules.rules.iter().map(|(k, v)| {
        let mut v = v.clone();
        v.sort();
        (k.clone(), v)
    }).collect();
    rules.sort();
    let mut muts: Vec<&String> = r.mutators_and_rules.mutators.iter().collect();
    muts.sort();
    let mut p = r.players.players.clone();
    p.sort();
    let mut b = r.players.bots.clone();
    b.sort();
    format!("{:?}|{:?}|{:?}|{:?}|{:?}", r.server_info, rules, muts, p, b)
}

/// HashMap debug output depends on iteration order: render maps sorted
pub fn render_valve(r: &valve::Response) -> String { valve_render(r) }
pub fn render_u2(r: &unreal2::Response) -> String { u2_render(r) }

fn valve_render(r: &valve::Response) -> String {
    let rules: Option<Vec<(&String, &String)>> = r.rules.as_ref().map(|m| {
        let mut v: Vec<_> = m.iter().collect();
        v.sort();
        v
    });
    let players: Option<Vec<(String, i32, u32, Option<u32>, Option<u32>)>> = r.players.as_ref().map(|p| p.iter().map(|x| (x.name.clone(), x.score, x.duration.to_bits(), x.deaths, x.money)).collect());
    format!("{:?}|{:?}|{:?}", r.info, players, rules)
}

fn sorted_map(m: &HashMap<String, String>) -> Vec<(&String, &String)> {
    let mut v: Vec<_> = m.iter().collect();
    v.sort();
    v
}

fn u2_render(r: &unreal2::Response) -> String {
    let mut rules: Vec<(&String, &Vec<String>)> = r.mutators_and_rules.rules.iter().collect();
    rules.sort();
    let mut muts: Vec<&String> = r.mutators_and_rules.mutators.iter().collect();
    muts.sort();
    format!("{:?}|{:?}|{:?}|{:?}", r.server_info, rules, muts, r.players)
}

struct Subject {
    kind: usize,
    frags: Vec<Vec<u8>>,
    /// run the query with the fragments delivered in this order; returns (exact rendering, multiset rendering)
    run: Box<dyn Fn(&[Vec<u8>]) -> (R, Option<String>)>,
}

fn wrap<T>(o: Outcome<gamedig::GDResult<T>>, render: impl Fn(&T) -> String, multi: impl Fn(&T) -> Option<String>) -> (R, Option<String>) {
    match o {
        Outcome::Returned(Ok(t)) => (R::Ok(render(&t)), multi(&t)),
        Outcome::Returned(Err(e)) => (R::Err(format!("{:?}", e.kind)), None),
        Outcome::Panicked(p) => (R::Panic(format!("{} {}", p.loc, norm_msg(&p.msg))), None),
        Outcome::StepLimit { .. } => (R::Panic("step-limit".into()), None),
    }
}

fn build_subject(cx: &mut Cx, kind: usize, n: usize) -> Option<Subject> {
    let a = addr(27015);
    match kind {
        0 ..= 4 => {
            let engine = match kind {
                3 => Engine::GoldSrc(false),
                _ => Engine::new(440),
            };
            let (np, nr) = match kind {
                1 => (cx.rng.usize(20, 60), 0),
                2 => (0, 0),
                _ => (0, cx.rng.usize(20, 80)),
            };
            let st = State::gen(&mut cx.rng, &engine, 440, np, nr);
            let msgs = [st.info_message(), st.players_message(), st.rules_message()];
            let target = match kind {
                1 => 1,
                2 => 0,
                _ => 2,
            };
            let enc = match kind {
                3 => Encoding::GoldSplit(n),
                4 => Encoding::Compressed(n),
                _ => Encoding::SourceSplit(n),
            };
            let bz = if kind == 4 { Some(vm::bzip2(&msgs[target])?) } else { None };
            let frags = vm::encode(&mut cx.rng, &msgs[target], enc, false, bz.as_deref());
            if frags.len() != n {
                return None;
            }
            let gs = GatheringSettings { players: if target == 1 { GatherToggle::Enforce } else { GatherToggle::Skip }, rules: if target == 2 { GatherToggle::Enforce } else { GatherToggle::Skip }, check_app_id: false };
            let run = move |order: &[Vec<u8>]| {
                let mut d: [Vec<Vec<u8>>; 3] = [vec![msgs[0].clone()], vec![msgs[1].clone()], vec![msgs[2].clone()]];
                d[target] = order.to_vec();
                let [i, p, r] = d;
                let mut server = A2sServer::new(i, p, r);
                server.plan[target] = vec![Behaviour::Answer(order.to_vec())];
                let run = run_with(server, DEFAULT_STEP_LIMIT, || valve::query(&a, engine, Some(gs), None));
                wrap(run.outcome, valve_render, |_| None)
            };
            Some(Subject { kind, frags, run: Box::new(run) })
        }
        5 => {
            let (x, y) = (cx.rng.usize(4, 20), cx.rng.usize(0, 6));
            let st = Gs1State::gen(&mut cx.rng, x, y);
            let frags = st.encode(&mut cx.rng, n);
            if frags.len() != n || frags.iter().any(|d| d.len() > 1024) {
                return None;
            }
            let run = move |order: &[Vec<u8>]| {
                let run = run_with(OneShotUdp::new(GS1_REQUEST, order.to_vec()), DEFAULT_STEP_LIMIT, || gamespy::one::query(&a, None));
                wrap(run.outcome, |r| {
                    let mut c = r.clone();
                    c.unused_entries.clear();
                    format!("{:?}|{:?}", c, sorted_map(&r.unused_entries))
                }, |_| None)
            };
            Some(Subject { kind, frags, run: Box::new(run) })
        }
        6 => {
            let (x, y, z) = (cx.rng.usize(3, 16), cx.rng.usize(0, 4), cx.rng.usize(0, 4));
            let st = Gs3State::gen(&mut cx.rng, x, y, z);
            let p = st.payloads(&mut cx.rng, n);
            let frags = Gs3State::frame(&p);
            if frags.len() != n || frags.iter().any(|d| d.len() > 2048) {
                return None;
            }
            let run = move |order: &[Vec<u8>]| {
                let run = run_with(Gs3Server::new("77", order.to_vec()), DEFAULT_STEP_LIMIT, || gamespy::three::query(&a, None));
                wrap(run.outcome, |r| {
                    let mut c = r.clone();
                    c.unused_entries.clear();
                    format!("{:?}|{:?}", c, sorted_map(&r.unused_entries))
                }, |_| None)
            };
            Some(Subject { kind, frags, run: Box::new(run) })
        }
        _ => {
            let rules_target = kind == 7;
            let (x, y) = (cx.rng.usize(n, 30), cx.rng.usize(n, 40));
            let mut st = UState::gen(&mut cx.rng, if rules_target { 2 } else { x }, if rules_target { y } else { 2 });
            st.num_players = st.players.len() as u32;
            let rules = st.rules_datagrams(if rules_target { n } else { 1 });
            let players = st.players_datagrams(if rules_target { 1 } else { n }, true);
            let frags = if rules_target { rules.clone() } else { players.clone() };
            if frags.len() != n || frags.iter().any(|d| d.len() > 1024) {
                return None;
            }
            let info = st.info_datagram();
            let gs = unreal2::GatheringSettings { players: GatherToggle::Enforce, mutators_and_rules: GatherToggle::Enforce };
            let run = move |order: &[Vec<u8>]| {
                let server = if rules_target { U2Server::new(info.clone(), order.to_vec(), players.clone()) } else { U2Server::new(info.clone(), rules.clone(), order.to_vec()) };
                let run = run_with(server, DEFAULT_STEP_LIMIT, || unreal2::query(&a, &gs, None));
                wrap(run.outcome, u2_render, |r| Some(u2_multiset(r)))
            };
            Some(Subject { kind, frags, run: Box::new(run) })
        }
    }
}

impl Check for C08 {
    fn id(&self) -> &'static str { "C08" }
    fn level(&self) -> &'static str { "exploration" }
    fn rule(&self) -> String {
        "for each multi-fragment response (Valve Source / GoldSrc / bzip2 splits of info, players, rules; GameSpy 1 parts; GameSpy 3 splitnum packets; Unreal 2 rules and players lists) with n = 2..6 fragments: every one of the n! arrival orders for n <= 5 (200 sampled at n = 6) must give a result equal to in-order arrival; every single-fragment duplication inserted at every position of the in-order sequence, and of every reordered sequence for n <= 4 (150 sampled schedules above), must give Err or the in-order result. Unreal 2 datagrams carry no index: compared exactly and as multisets so that a pure ordering difference is distinguished from loss/duplication. non-trivial = a (protocol, fragments, order) triple executed with the in-order result Ok; distinct by (fragments, order)".into()
    }
    fn assumptions(&self) -> Vec<String> {
        vec![
            "the permuted section is the last one the query requests (other sections skipped or single-datagram), so a left-over datagram cannot be mistaken for the reply to a later request".into(),
            "server models as in C02/C04/C06".into(),
        ]
    }
    fn total_cases(&self, tier: Tier) -> u64 { tier.pick(1_800, 40_000) }
    fn exhaustive(&self, _tier: Tier) -> Option<bool> { Some(true) }
    fn run_case(&mut self, cx: &mut Cx) {
        let kind = (cx.idx % KINDS.len() as u64) as usize;
        // quick: n <= 4 everywhere and n = 5 for the valve kinds; thorough: 2..6
        let n = match cx.tier {
            Tier::Quick => {
                let max = if kind <= 4 { 5 } else { 4 };
                2 + ((cx.idx / KINDS.len() as u64) % (max - 1)) as usize
            }
            Tier::Thorough => 2 + ((cx.idx / KINDS.len() as u64) % 5) as usize,
        };
        let mut subj = None;
        for _ in 0 .. 20 {
            subj = build_subject(cx, kind, n);
            if subj.is_some() {
                break;
            }
        }
        let Some(subj) = subj else {
            cx.inconclusive(&format!("could not build {} with {n} fragments", KINDS[kind]));
            return;
        };
        let name = KINDS[subj.kind];
        let frags = &subj.frags;
        let (base, base_multi) = (subj.run)(frags);
        cx.eval();
        if !matches!(base, R::Ok(_)) {
            cx.violation(format!("C08 {name} in-order-delivery-fails"), || json!({"kind": name, "n": n, "result": format!("{base:?}"), "fragments": frags.iter().map(|f| hex(f)).collect::<Vec<_>>()}));
            return;
        }
        cx.shape(&format!("{name}|n={n}"));
        let fh = hash64(&frags.concat());
        // permutations
        let mut perm: Vec<usize> = (0 .. n).collect();
        let mut count = 0u64;
        let all = n <= 5;
        let sample_perms: Vec<Vec<usize>> = if all {
            let mut v = Vec::new();
            loop {
                v.push(perm.clone());
                if !next_permutation(&mut perm) {
                    break;
                }
            }
            v
        } else {
            (0 .. 200)
                .map(|_| {
                    let mut p: Vec<usize> = (0 .. n).collect();
                    cx.rng.shuffle(&mut p);
                    p
                })
                .collect()
        };
        let mut perm_results: std::collections::HashMap<Vec<usize>, R> = Default::default();
        for p in &sample_perms {
            if p.iter().enumerate().all(|(i, x)| i == *x) {
                continue;
            }
            let order: Vec<Vec<u8>> = p.iter().map(|i| frags[*i].clone()).collect();
            let (r, multi) = (subj.run)(&order);
            cx.eval();
            count += 1;
            cx.nontrivial(fh ^ hash64(format!("{p:?}").as_bytes()));
            perm_results.insert(p.clone(), r.clone());
            if r != base {
                let first_is_last = p[0] == n - 1;
                let what = match (&r, &multi, &base_multi) {
                    (R::Panic(_), _, _) => "panic",
                    (R::Err(_), _, _) => "error-instead-of-response",
                    (R::Ok(_), Some(m), Some(b)) if m == b => "order-differs-only (multiset equal)",
                    (R::Ok(_), _, _) => "different-response",
                };
                let _ = first_is_last;
                cx.violation(format!("C08 {name} permutation {what}"), || json!({"kind": name, "n": n, "order": p, "result": format!("{r:?}").chars().take(600).collect::<String>(), "in_order": format!("{base:?}").chars().take(600).collect::<String>(), "fragments": frags.iter().map(|f| hex(f)).collect::<Vec<_>>()}));
            }
        }
        cx.count_n(&format!("permutations|{name}|n={n}"), count);
        // duplications: copy of fragment i inserted at position pos of the in-order sequence
        let mut dups = 0u64;
        for i in 0 .. n {
            for pos in 0 ..= n {
                let mut order = frags.clone();
                order.insert(pos, frags[i].clone());
                let (r, multi) = (subj.run)(&order);
                cx.eval();
                dups += 1;
                cx.nontrivial(fh ^ hash64(format!("dup {i} {pos}").as_bytes()));
                match &r {
                    R::Err(_) => {}
                    R::Ok(_) if r == base => {}
                    R::Ok(_) => {
                        let what = match (&multi, &base_multi) {
                            (Some(m), Some(b)) if m == b => "order-differs-only (multiset equal)",
                            _ => "different-response-accepted",
                        };
                        cx.violation(format!("C08 {name} duplicate {what}"), || json!({"kind": name, "n": n, "duplicated": i, "inserted_at": pos, "result": format!("{r:?}").chars().take(600).collect::<String>(), "in_order": format!("{base:?}").chars().take(600).collect::<String>()}));
                    }
                    R::Panic(m) => cx.violation(format!("C08 {name} duplicate panic"), || json!({"kind": name, "panic": m})),
                }
            }
        }
        // duplications in reordered schedules: the n fragments in a non-trivial order with a copy of fragment i inserted
        // at position pos (all of them for n <= 4, 150 sampled above)
        let mut schedules: Vec<(Vec<usize>, usize, usize)> = Vec::new();
        if n <= 4 {
            for p in &sample_perms {
                if p.iter().enumerate().all(|(i, x)| i == *x) {
                    continue;
                }
                for i in 0 .. n {
                    for pos in 0 ..= n {
                        schedules.push((p.clone(), i, pos));
                    }
                }
            }
        } else {
            for _ in 0 .. 150 {
                let p = cx.rng.pick(&sample_perms).clone();
                schedules.push((p, cx.rng.usize(0, n - 1), cx.rng.usize(0, n)));
            }
        }
        let mut pdups = 0u64;
        for (p, i, pos) in &schedules {
            let mut order: Vec<Vec<u8>> = p.iter().map(|k| frags[*k].clone()).collect();
            order.insert(*pos, frags[*i].clone());
            let (r, multi) = (subj.run)(&order);
            cx.eval();
            pdups += 1;
            cx.nontrivial(fh ^ hash64(format!("pdup {p:?} {i} {pos}").as_bytes()));
            match &r {
                R::Err(_) => {}
                R::Ok(_) if r == base => {}
                // the deviation of this arrival order without any copy was already judged in the permutation sweep;
                // a copy that changes nothing about it is not a second deviation
                R::Ok(_) if perm_results.get(p) == Some(&r) => {
                    cx.count("duplicate-changes-nothing-about-a-reordered-result");
                }
                R::Ok(_) => {
                    let what = match (&multi, &base_multi) {
                        (Some(m), Some(b)) if m == b => "order-differs-only (multiset equal)",
                        _ => "different-response-accepted",
                    };
                    cx.violation(format!("C08 {name} duplicate {what}"), || json!({"kind": name, "n": n, "arrival_order": p, "duplicated": i, "inserted_at": pos, "result": format!("{r:?}").chars().take(600).collect::<String>(), "in_order": format!("{base:?}").chars().take(600).collect::<String>()}));
                }
                R::Panic(m) => cx.violation(format!("C08 {name} duplicate panic"), || json!({"kind": name, "panic": m})),
            }
        }
        cx.count_n(&format!("duplications-in-reordered-schedules|{name}"), pdups);
        cx.count_n(&format!("duplications|{name}"), dups);
        cx.sample(|| json!({"kind": name, "n": n, "permutations_run": count, "duplications_run": dups, "first_fragment": hex(&frags[0][.. frags[0].len().min(60)])}));
    }
    fn sufficient(&self, _tier: Tier, m: &Stats) -> Result<(), String> {
        for k in KINDS {
            if !m.shapes.keys().any(|s| s.starts_with(&format!("{k}|"))) {
                return Err(format!("no case of kind {k} reached the comparison"));
            }
        }
        Ok(())
    }
    fn extra_coverage(&self, _tier: Tier, m: &Stats) -> Value {
        let perms: std::collections::BTreeMap<&String, &u64> = m.counters.iter().filter(|(k, _)| k.starts_with("permutations|") || k.starts_with("duplications")).collect();
        json!({"executions_per_kind_and_n": perms})
    }
}
