//! C01 (totality under hostile replies) and C13 (bounded memory / sends) — same workloads, different oracles.

use crate::core::framework::{Check, Cx, Stats, Tier};
use crate::core::monitor::{norm_msg, Outcome};
use crate::core::rng::{hash64, Rng};
use crate::props::hostile::*;
use serde_json::{json, Value};

pub const LIVE_LIMIT: u64 = 64 << 20;
pub const SINGLE_LIMIT: u64 = 16 << 20;

struct Fixed {
    ep: usize,
    settings: Settings,
    script: Vec<Vec<Vec<u8>>>,
    len: u64,
}

pub struct Hostile {
    id: &'static str,
    eps: Vec<Ep>,
    fixed: Vec<Fixed>,
    trunc_total: u64,
    byte_total: u64,
    /// every byte of the fixed exchanges replaced by a valid multi-byte UTF-8 character
    splice_total: u64,
    /// every reply cut at every offset and continued with a row count of 255 and tens of thousands of tiny strings
    amp_total: u64,
    broken_seeds: Vec<String>,
}

const SEEDS_PER_EP: u64 = 2;

impl Hostile {
    pub fn new(id: &'static str) -> Self {
        crate::core::monitor::install_panic_hook();
        let eps = all_eps();
        let mut fixed = Vec::new();
        let mut broken = Vec::new();
        // under the Miri interpreter only the random cases are replayed: recording 276 seed exchanges would take minutes
        let eps_for_fixed: Vec<Ep> = if cfg!(miri) { vec![] } else { eps.clone() };
        for (i, ep) in eps_for_fixed.iter().enumerate() {
            for k in 0 .. SEEDS_PER_EP {
                // fixed seeds: independent of VERIF_SEED so that the sweeps are the same complete set on every run
                let mut rng = Rng::for_case(0x5eed, "hostile-fixed", (i as u64) * 16 + k);
                let mut settings = Settings::fixed();
                settings.retries = k as usize % 2;
                let (script, ok) = record_seed(ep, &settings, &mut rng);
                if !ok {
                    broken.push(ep_name(ep));
                }
                let len = script_len(&script) as u64;
                fixed.push(Fixed { ep: i, settings, script, len });
            }
        }
        let trunc_total = fixed.iter().map(|f| f.len + 1).sum();
        let byte_total = fixed.iter().map(|f| f.len * BYTE_VALUES.len() as u64).sum();
        let splice_total = fixed.iter().map(|f| f.len).sum();
        let amp_total = fixed.iter().map(|f| f.len).sum();
        Self { id, eps, fixed, trunc_total, byte_total, splice_total, amp_total, broken_seeds: broken }
    }

    fn n_random(&self, tier: Tier) -> u64 { tier.pick(250_000, 12_000_000) }

    fn judge(&self, cx: &mut Cx, ep: &Ep, settings: &Settings, script: &[Vec<Vec<u8>>], label: &str) {
        let step_limit = 64 + 40 * (settings.retries as u64 + 1) * request_units(ep) + 4 * script.iter().map(|c| c.len() as u64).sum::<u64>();
        let obs = execute(ep, settings, script, step_limit);
        cx.eval();
        let fam = ep_family(ep);
        let name = ep_name(ep);
        let class = obs.class();
        cx.count(&format!("outcome|{fam}|{class}"));
        cx.shape(&format!("{name}|{label}|{class}"));
        let mut h = Vec::new();
        for c in script {
            for d in c {
                h.extend((d.len() as u32).to_le_bytes());
                h.extend(d.iter().take(4096));
            }
            h.push(0xfe);
        }
        h.extend(name.bytes());
        h.extend(format!("{settings:?}").bytes());
        let hash = hash64(&h);
        if obs.delivered > 0 {
            cx.nontrivial(hash);
            cx.count(&format!("consumed|{}", name));
            if class == "Ok" {
                cx.count(&format!("reached-ok|{fam}"));
            }
        }
        let detail = |extra: Value| json!({"entry_point": name, "settings": format!("{settings:?}"), "mutation": label, "script(per connection, hex)": script_json(script), "observed": extra});
        if self.id == "C01" {
            match &obs.outcome {
                Outcome::Panicked(p) => cx.violation(format!("C01 panic at {} msg=\"{}\" via {fam}", p.loc, norm_msg(&p.msg)), || detail(json!({"panic": p.msg, "location": p.loc}))),
                Outcome::StepLimit { silent_ops, total_ops } => cx.violation(format!("C01 no-return-after-silence via {fam}"), || detail(json!({"silent_ops": silent_ops, "total_ops": total_ops, "basis": "logical step clock"}))),
                Outcome::Returned(_) => {}
            }
            cx.sample(|| detail(json!({"outcome": class})));
        } else {
            // C13
            cx.max(&format!("peak_live_bytes|{fam}"), obs.alloc.peak, || json!({"entry_point": name, "mutation": label, "script": script_json(script)}));
            cx.max(&format!("largest_single_request|{fam}"), obs.alloc.largest, || json!({"entry_point": name, "mutation": label, "script": script_json(script)}));
            if obs.alloc.largest > SINGLE_LIMIT {
                cx.violation(format!("C13 single-request-over-16MiB via {fam}{}", panic_tag(&obs)), || detail(json!({"largest_single_request": obs.alloc.largest, "outcome": class})));
            } else if obs.alloc.peak > LIVE_LIMIT {
                cx.violation(format!("C13 live-over-64MiB via {fam}"), || detail(json!({"peak_live": obs.alloc.peak, "outcome": class})));
            }
            let bound = request_units(ep) * (settings.retries as u64 + 1) + obs.delivered;
            if obs.sends > bound {
                cx.violation(format!("C13 sends-exceed-bound via {fam}"), || detail(json!({"sends": obs.sends, "bound": bound, "received": obs.delivered, "retries": settings.retries})));
            }
            cx.max(&format!("sends_minus_received|{fam}"), obs.sends.saturating_sub(obs.delivered), || json!({"entry_point": name, "retries": settings.retries}));
            cx.sample(|| detail(json!({"outcome": class, "peak_live": obs.alloc.peak, "largest": obs.alloc.largest, "sends": obs.sends, "received": obs.delivered})));
        }
    }
}

fn panic_tag(obs: &Obs) -> String {
    match obs.panic() {
        Some(p) if p.msg.contains("capacity overflow") => format!(" (capacity overflow at {})", p.loc),
        _ => String::new(),
    }
}

impl Check for Hostile {
    fn id(&self) -> &'static str { self.id }
    fn memcheck_plan(&self, tier: Tier) -> Option<(crate::core::framework::MemMode, Vec<(u64, u64)>)> {
        if tier != Tier::Thorough || self.id != "C01" {
            return None;
        }
        let total = self.total_cases(tier);
        Some((crate::core::framework::MemMode::Harness, (0 .. 16).map(|i| (i * (total / 16), 3000)).collect()))
    }
    fn miri_plan(&self, tier: Tier) -> Option<Vec<(u64, u64)>> {
        if tier != Tier::Thorough || self.id != "C01" {
            return None;
        }
        Some((0 .. 16).map(|i| (i * 40, 40)).collect())
    }
    fn rule(&self) -> String {
        format!(
            "{} public entry points (every protocol query, per-game wrappers, master-server service, generic dispatch for every GAMES entry) x settings (retries 0-2, gather toggles, app-id check, timeouts None/Some) run against static hostile reply scripts derived from well-formed exchanges of the server models: (1) truncation of every reply at every byte offset for {} fixed seed exchanges, (2) every byte of those exchanges set to each of {:?}, (2b) every byte replaced by a 2/3/4-byte UTF-8 character; every reply cut at every offset and continued as a 60 kB datagram of a 255 row count and tiny strings, (3) random mutations (byte/field extremes, extreme decimals, deleted terminators, VarInt inflation, invalid and multi-byte text, compressed split answers whose valid bzip2 stream inflates to 24-40 MiB behind a small declared size, dropped/duplicated/reordered/empty/64 KiB datagrams, repeated challenge streams, random tails, random datagrams, fragment-header values, silence from any point). non-trivial = the client consumed at least one scripted datagram; distinct by (entry point, settings, script)",
            self.eps.len(),
            self.fixed.len(),
            BYTE_VALUES
        )
    }
    fn assumptions(&self) -> Vec<String> {
        let mut v = vec![
            "the scripted transport stands in for the sockets (fidelity: see C12's self-test); a timeout is virtual".into(),
            "'returns once the server has gone silent' is decided on a logical clock: socket operations after the script is exhausted, bound = 64 + 40 x (retries+1) x request units + 4 x datagrams".into(),
            "a hang that performs neither I/O nor allocation is only visible to the supervisor's wall-clock watchdog".into(),
            "Eco (ureq over real sockets) is exercised in C12/C07, not here".into(),
        ];
        if self.id == "C13" {
            v.push("allowance from the property: 64 MiB live, 16 MiB per request, measured per query thread by the harness's counting allocator relative to the start of the query; sends <= K_EP x (retries+1) + datagrams received".into());
        }
        v
    }
    fn total_cases(&self, tier: Tier) -> u64 { self.trunc_total + self.byte_total + self.splice_total + self.amp_total + self.n_random(tier) }
    fn case_label(&self, _tier: Tier, idx: u64) -> String {
        if idx < self.trunc_total {
            "truncation-sweep".into()
        } else if idx < self.trunc_total + self.byte_total {
            "byte-sweep".into()
        } else if idx < self.trunc_total + self.byte_total + self.splice_total {
            "utf8-splice-sweep".into()
        } else if idx < self.trunc_total + self.byte_total + self.splice_total + self.amp_total {
            "amplification-sweep".into()
        } else {
            "random-mutation".into()
        }
    }
    fn exhaustive(&self, _tier: Tier) -> Option<bool> { None }
    fn run_case(&mut self, cx: &mut Cx) {
        let mut idx = cx.idx;
        if idx < self.trunc_total {
            for f in &self.fixed {
                if idx <= f.len {
                    let mut s = f.script.clone();
                    if idx < f.len {
                        truncate_at(&mut s, idx as usize);
                    }
                    cx.count("truncation-sweep-cases");
                    let ep = self.eps[f.ep].clone();
                    let st = f.settings.clone();
                    self.judge(cx, &ep, &st, &s, "truncate-sweep");
                    return;
                }
                idx -= f.len + 1;
            }
            return;
        }
        idx -= self.trunc_total;
        if idx < self.byte_total {
            let nv = BYTE_VALUES.len() as u64;
            for f in &self.fixed {
                if idx < f.len * nv {
                    let mut s = f.script.clone();
                    set_byte(&mut s, (idx / nv) as usize, BYTE_VALUES[(idx % nv) as usize]);
                    cx.count("byte-sweep-cases");
                    let ep = self.eps[f.ep].clone();
                    let st = f.settings.clone();
                    self.judge(cx, &ep, &st, &s, "byte-sweep");
                    return;
                }
                idx -= f.len * nv;
            }
            return;
        }
        idx -= self.byte_total;
        if idx < self.splice_total {
            // valid multi-byte text where a one-byte character (often a separator or the first byte) was
            let ch: &[u8] = [&[0xc3u8, 0xa9][..], &[0xe2, 0x82, 0xac], &[0xf0, 0x9f, 0x98, 0x80]][(idx % 3) as usize];
            for f in &self.fixed {
                if idx < f.len {
                    let mut s = f.script.clone();
                    if let Some((c, j, k)) = locate(&s, idx as usize) {
                        s[c][j].splice(k ..= k, ch.iter().copied());
                    }
                    cx.count("utf8-splice-sweep-cases");
                    let ep = self.eps[f.ep].clone();
                    let st = f.settings.clone();
                    self.judge(cx, &ep, &st, &s, "utf8-splice-sweep");
                    return;
                }
                idx -= f.len;
            }
            return;
        }
        idx -= self.splice_total;
        if idx < self.amp_total {
            // a reply that continues, from any offset on, as "255 rows" and ~30 000 two-byte strings in a 60 kB datagram:
            // what a parser that multiplies counts may do with it is bounded by the bytes the client actually reads
            for f in &self.fixed {
                if idx < f.len {
                    let mut s = f.script.clone();
                    if let Some((c, j, k)) = locate(&s, idx as usize) {
                        s[c][j].truncate(k);
                        s[c][j].extend([0x00, 0xff]);
                        while s[c][j].len() < 60_000 {
                            s[c][j].extend(b"a\0");
                        }
                        s[c][j].push(0);
                    }
                    cx.count("amplification-sweep-cases");
                    let ep = self.eps[f.ep].clone();
                    let st = f.settings.clone();
                    self.judge(cx, &ep, &st, &s, "amplification-sweep");
                    return;
                }
                idx -= f.len;
            }
            return;
        }
        idx -= self.amp_total;
        // random: fresh seed exchange, random settings, 1-3 mutations
        let ep = self.eps[(idx % self.eps.len() as u64) as usize].clone();
        let settings = Settings::gen(&mut cx.rng);
        let (mut script, _ok) = record_seed(&ep, &{
            let mut s = settings.clone();
            // record the seed with everything gathered so that all sections are present
            s.gather_players = gamedig::protocols::types::GatherToggle::Enforce;
            s.gather_rules = gamedig::protocols::types::GatherToggle::Enforce;
            s.check_app_id = false;
            s
        }, &mut cx.rng);
        let n = cx.rng.usize(1, 3);
        let mut label = "";
        for _ in 0 .. n {
            let bias = self.id == "C13" && cx.rng.bool();
            label = mutate(&mut cx.rng, &mut script, bias);
        }
        cx.count("random-cases");
        self.judge(cx, &ep, &settings, &script, label);
    }
    fn sufficient(&self, _tier: Tier, m: &Stats) -> Result<(), String> {
        if !self.broken_seeds.is_empty() {
            return Err(format!("well-formed seed exchange did not succeed for: {:?}", self.broken_seeds));
        }
        let missing: Vec<String> = self.eps.iter().map(ep_name).filter(|n| m.counters.get(&format!("consumed|{n}")).copied().unwrap_or(0) == 0).collect();
        if !missing.is_empty() {
            return Err(format!("entry points that never consumed a reply: {missing:?}"));
        }
        Ok(())
    }
    fn extra_coverage(&self, _tier: Tier, m: &Stats) -> Value {
        let mut outcomes: std::collections::BTreeMap<String, std::collections::BTreeMap<String, u64>> = Default::default();
        for (k, v) in &m.counters {
            if let Some(rest) = k.strip_prefix("outcome|") {
                let (fam, class) = rest.split_once('|').unwrap();
                outcomes.entry(fam.to_string()).or_default().insert(class.to_string(), *v);
            }
        }
        json!({
            "entry_points": self.eps.len(),
            "entry_points_that_consumed_a_reply": self.eps.iter().filter(|e| m.counters.get(&format!("consumed|{}", ep_name(e))).copied().unwrap_or(0) > 0).count(),
            "outcomes_per_family": outcomes,
            "truncation_sweep_cases": m.counters.get("truncation-sweep-cases"),
            "truncation_sweep_planned": self.trunc_total,
            "byte_sweep_cases": m.counters.get("byte-sweep-cases"),
            "byte_sweep_planned": self.byte_total,
            "utf8_splice_sweep_cases": m.counters.get("utf8-splice-sweep-cases"),
            "utf8_splice_sweep_planned": self.splice_total,
            "amplification_sweep_cases": m.counters.get("amplification-sweep-cases"),
            "amplification_sweep_planned": self.amp_total,
        })
    }
    fn budget_s(&self, tier: Tier) -> u64 { tier.pick(150, 2400) }
}
