//! C10 — retries: at most r+1 attempts, only after timeouts, same result.

use crate::core::framework::{Check, Cx, Stats, Tier};
use crate::core::monitor::{kind_name, norm_msg, run_with, Outcome, DEFAULT_STEP_LIMIT};
use crate::core::net::{hex, Conn, Net, Server};
use crate::core::rng::{hash64, Rng};
use crate::models::gamespy::{Gs1State, Gs2State, Gs3State, GS1_REQUEST, GS2_REQUEST};
use crate::models::minecraft::{BedrockState, JavaState, LegacyState, BEDROCK_PING};
use crate::models::misc::{FfowState, Jc2mState, MindustryState};
use crate::models::quake::{QState, Ver};
use crate::models::unreal2::{U2Server, UBehaviour, UState};
use crate::models::valve::{A2sServer, Behaviour, INFO_PAYLOAD};
use crate::props::c02::build;
use crate::props::c08;
use gamedig::games::minecraft::LegacyGroup;
use gamedig::protocols::types::GatherToggle;
use gamedig::protocols::valve::{Engine, GatheringSettings};
use gamedig::protocols::{gamespy, quake, unreal2, valve};
use gamedig::verif_hook::Kind;
use gamedig::{games, GDErrorKind, TimeoutSettings};
use serde_json::{json, Value};
use std::net::{IpAddr, Ipv4Addr, SocketAddr};

#[derive(Debug, Clone, Copy, PartialEq, Eq)]
pub enum Att {
    Silent,
    SendFails,
    Malformed,
    Valid,
}
const ATTS: [Att; 4] = [Att::Silent, Att::SendFails, Att::Malformed, Att::Valid];

/// Generic single-request server: the k-th request matching `is_request` gets plan[k] (Valid beyond the plan).
pub struct AttemptServer {
    pub is_request: fn(&[u8]) -> bool,
    pub valid: Vec<Vec<u8>>,
    pub malformed: Vec<Vec<u8>>,
    pub plan: Vec<Att>,
    pub attempts: usize,
}

impl Server for AttemptServer {
    fn on_send(&mut self, conn: &mut Conn, data: &[u8]) -> bool {
        if !(self.is_request)(data) {
            return true;
        }
        let k = self.attempts;
        self.attempts += 1;
        conn.queue.clear();
        match self.plan.get(k).copied().unwrap_or(Att::Valid) {
            Att::Valid => {
                conn.reply_all(self.valid.iter().cloned());
                if conn.kind == Kind::Tcp {
                    conn.close();
                }
            }
            Att::Malformed => {
                conn.reply_all(self.malformed.iter().cloned());
                if conn.kind == Kind::Tcp {
                    conn.close();
                }
            }
            Att::Silent => {}
            Att::SendFails => return false,
        }
        true
    }
}

/// GameSpy 3: handshake and data request are one retry unit with two request positions
pub struct Gs3AttemptServer {
    /// which malformed reply: 0 = right kind with a broken body, 1 = a reply of the other kind
    pub alt: usize,
    pub data: Vec<Vec<u8>>,
    pub pos: usize,
    pub plan: Vec<Att>,
    pub handshakes: usize,
    pub data_requests: usize,
}

impl Server for Gs3AttemptServer {
    fn on_send(&mut self, conn: &mut Conn, d: &[u8]) -> bool {
        let hs = d == [0xfe, 0xfd, 0x09, 0, 0, 0, 1];
        let dr = d.len() >= 7 && d[.. 3] == [0xfe, 0xfd, 0x00];
        if !hs && !dr {
            return true;
        }
        conn.queue.clear();
        let (k, here) = if hs {
            self.handshakes += 1;
            // position 2: the k-th attempt of the unit fails at the handshake (k even) or at the data request (k odd)
            (self.handshakes - 1, self.pos == 0 || (self.pos == 2 && (self.handshakes - 1) % 2 == 0))
        } else {
            self.data_requests += 1;
            if self.pos == 2 {
                let unit = self.handshakes.saturating_sub(1);
                (unit, unit % 2 == 1)
            } else {
                (self.data_requests - 1, self.pos == 1)
            }
        };
        let att = if here { self.plan.get(k).copied().unwrap_or(Att::Valid) } else { Att::Valid };
        match att {
            Att::Valid => {
                if hs {
                    conn.reply(vec![0x09, 0, 0, 0, 1, b'4', b'2', 0]);
                } else {
                    conn.reply_all(self.data.iter().cloned());
                }
            }
            Att::Malformed => {
                match (hs, self.alt % 2) {
                    (true, 0) => conn.reply(vec![0x09, 0, 0, 0, 1, b'x', 0]),
                    (true, _) => conn.reply(vec![0x00, 0, 0, 0, 1, b'4', b'2', 0]),
                    (false, 0) => conn.reply(vec![0x00, 0, 0, 0, 1, b'b', b'a', b'd', 0]),
                    (false, _) => conn.reply(vec![0x09, 0, 0, 0, 1, b'4', b'2', 0]),
                }
            }
            Att::Silent => {}
            Att::SendFails => return false,
        }
        true
    }
}

type R = Result<String, GDErrorKind>;

struct Subject {
    name: &'static str,
    /// run the query with retry count r against the server for (position, plan); returns the rendered result and the net
    run: Box<dyn Fn(usize, &[Att], usize, usize) -> (Outcome<R>, Net)>,
    /// how many different malformed replies the subject knows (the last argument of `run` selects one)
    malformed_alternatives: usize,
    /// several request positions faulted in one query: one outcome vector per position
    run_multi: Option<Box<dyn Fn(&[Vec<Att>], usize) -> (Outcome<R>, Net)>>,
    /// does this send start an attempt at position p?
    is_attempt: Box<dyn Fn(usize, &[u8]) -> bool>,
    positions: usize,
    /// positions whose failure leaves the rest intact (gather Try): the expected result is the baseline of the "absent" variant
    try_positions: Vec<usize>,
    /// handshake-plus-request unit: every data request must directly follow a handshake of its own attempt
    unit: bool,
}

fn addr() -> SocketAddr { SocketAddr::new(IpAddr::V4(Ipv4Addr::new(10, 10, 0, 1)), 4000) }
fn ts(r: usize) -> Option<TimeoutSettings> { TimeoutSettings::new(None, None, None, r).ok() }

fn fresh_info(d: &[u8]) -> bool { d.len() == 5 + INFO_PAYLOAD.len() && d[4] == 0x54 }
fn fresh_players(d: &[u8]) -> bool { d == [0xff, 0xff, 0xff, 0xff, 0x55, 0xff, 0xff, 0xff, 0xff] }
fn fresh_rules(d: &[u8]) -> bool { d == [0xff, 0xff, 0xff, 0xff, 0x56, 0xff, 0xff, 0xff, 0xff] }

fn to_r<T>(o: Outcome<gamedig::GDResult<T>>, render: impl Fn(&T) -> String) -> Outcome<R> {
    match o {
        Outcome::Returned(Ok(t)) => Outcome::Returned(Ok(render(&t))),
        Outcome::Returned(Err(e)) => Outcome::Returned(Err(e.kind)),
        Outcome::Panicked(p) => Outcome::Panicked(p),
        Outcome::StepLimit { silent_ops, total_ops } => Outcome::StepLimit { silent_ops, total_ops },
    }
}

fn simple_subject<T: 'static>(name: &'static str, is_request: fn(&[u8]) -> bool, valid: Vec<Vec<u8>>, malformed: Vec<Vec<u8>>, call: impl Fn(Option<TimeoutSettings>) -> gamedig::GDResult<T> + 'static, render: fn(&T) -> String) -> Subject {
    Subject {
        name,
        positions: 1,
        try_positions: vec![],
        unit: false,
        run_multi: None,
        malformed_alternatives: malformed.len(),
        is_attempt: Box::new(move |_, d| is_request(d)),
        run: Box::new(move |_pos, plan, r, alt| {
            let server = AttemptServer { is_request, valid: valid.clone(), malformed: vec![malformed[alt % malformed.len()].clone()], plan: plan.to_vec(), attempts: 0 };
            let run = run_with(server, DEFAULT_STEP_LIMIT, || call(ts(r)));
            (to_r(run.outcome, render), run.net)
        }),
    }
}

fn dbg<T: std::fmt::Debug>(t: &T) -> String { format!("{t:?}") }

/// a Quake response with its map of remaining variables in a fixed order (two runs are compared through `Debug`)
fn qnorm<P>(mut r: quake::Response<P>) -> (quake::Response<P>, Vec<(String, String)>) {
    let mut u: Vec<(String, String)> = r.unused_entries.drain().collect();
    u.sort();
    (r, u)
}

fn subjects(rng: &mut Rng) -> Vec<Subject> {
    let mut v: Vec<Subject> = Vec::new();
    // --- valve: three positions, Enforce and Try variants
    // `cts`: a silent attempt is one in which the server still issues its challenge and then falls silent on the
    // request that carries it (a timeout-class failure of the same unit, at the second message of the attempt)
    // mode 2: a silent attempt is one in which only the first fragment of a two-fragment split reply arrives (the
    // wait for the second one times out: a timeout-class failure of the attempt, not a malformed reply)
    for (try_mode, mode) in [(false, 0u8), (true, 0), (false, 1), (true, 1), (false, 2), (true, 2)] {
        let cts = mode == 1;
        let engine = Engine::new(440);
        let b = build(rng, &engine, 440, 3, 3, false);
        let st = b.state.clone();
        let (i, p, ru) = (vec![st.info_message()], vec![st.players_message()], vec![st.rules_message()]);
        let partial: [Vec<Vec<u8>>; 3] = [&i[0], &p[0], &ru[0]].map(|m| {
            let mut f = crate::models::valve::encode(rng, m, crate::models::valve::Encoding::SourceSplit(2), false, None);
            f.truncate(1);
            f
        });
        let (partial1, partial2) = (partial.clone(), partial.clone());
        let toggle = if try_mode { GatherToggle::Try } else { GatherToggle::Enforce };
        let gs = GatheringSettings { players: toggle, rules: toggle, check_app_id: true };
        // per position two replies that fail decoding: a truncated reply of the right kind, and (info) a reply of
        // another kind / (players) a list cut inside the second entry. The client does not look at the kind byte of
        // players and rules replies, so a reply of another kind is not "malformed" there (observed, not judged).
        let malformed: [[Vec<u8>; 2]; 3] = [
            [vec![0xff, 0xff, 0xff, 0xff, 0x49, 0x11], vec![0xff, 0xff, 0xff, 0xff, 0x44, 0x00]],
            [vec![0xff, 0xff, 0xff, 0xff, 0x44, 0x05, 0x00], vec![0xff, 0xff, 0xff, 0xff, 0x44, 0x02, 0x00, 0x41, 0x00, 0x01, 0x00, 0x00, 0x00, 0x00, 0x00, 0x80, 0x3f, 0x01]],
            [vec![0xff, 0xff, 0xff, 0xff, 0x45, 0x09], vec![0xff, 0xff, 0xff, 0xff, 0x45, 0x09]],
        ];
        let (i2, p2, ru2, mal2) = (i.clone(), p.clone(), ru.clone(), malformed.clone());
        v.push(Subject {
            name: match (try_mode, mode) {
                (false, 0) => "valve(enforce)",
                (true, 0) => "valve(try)",
                (false, 1) => "valve(enforce,challenge-then-silent)",
                (true, 1) => "valve(try,challenge-then-silent)",
                (false, _) => "valve(enforce,first-fragment-then-silent)",
                (true, _) => "valve(try,first-fragment-then-silent)",
            },
            positions: 3,
            unit: false,
            run_multi: Some(Box::new(move |plans, r| {
                let mut server = A2sServer::new(i2.clone(), p2.clone(), ru2.clone());
                let valid = [i2.clone(), p2.clone(), ru2.clone()];
                for (pos, plan) in plans.iter().enumerate().take(3) {
                    server.plan[pos] = plan
                        .iter()
                        .map(|a| match a {
                            Att::Valid => Behaviour::Answer(valid[pos].clone()),
                            Att::Silent => if cts { Behaviour::ChallengeThenSilent } else if mode == 2 { Behaviour::Answer(partial1[pos].clone()) } else { Behaviour::Silent },
                            Att::SendFails => Behaviour::SendFails,
                            Att::Malformed => Behaviour::Answer(vec![mal2[pos][0].clone()]),
                        })
                        .chain(std::iter::once(Behaviour::Answer(valid[pos].clone())))
                        .collect();
                }
                let a = addr();
                let run = run_with(server, DEFAULT_STEP_LIMIT, || valve::query(&a, engine, Some(gs), ts(r)));
                (to_r(run.outcome, c08_valve_render), run.net)
            })),
            malformed_alternatives: 2,
            try_positions: if try_mode { vec![1, 2] } else { vec![] },
            is_attempt: Box::new(|p, d| match p {
                0 => fresh_info(d),
                1 => fresh_players(d),
                _ => fresh_rules(d),
            }),
            run: Box::new(move |pos, plan, r, alt| {
                let mut server = A2sServer::new(i.clone(), p.clone(), ru.clone());
                let valid = [i.clone(), p.clone(), ru.clone()];
                server.plan[pos] = plan
                    .iter()
                    .map(|a| match a {
                        Att::Valid => Behaviour::Answer(valid[pos].clone()),
                        Att::Silent => if cts { Behaviour::ChallengeThenSilent } else if mode == 2 { Behaviour::Answer(partial2[pos].clone()) } else { Behaviour::Silent },
                        Att::SendFails => Behaviour::SendFails,
                        Att::Malformed => Behaviour::Answer(vec![malformed[pos][alt % 2].clone()]),
                    })
                    .chain(std::iter::once(Behaviour::Answer(valid[pos].clone())))
                    .collect();
                let a = addr();
                let run = run_with(server, DEFAULT_STEP_LIMIT, || valve::query(&a, engine, Some(gs), ts(r)));
                (to_r(run.outcome, c08_valve_render), run.net)
            }),
        });
    }
    // --- single request protocols
    {
        let st = Gs1State::gen(rng, 2, 2);
        let d = st.encode(rng, 2);
        v.push(simple_subject("gamespy1", |d| d == GS1_REQUEST, d, vec![b"\\queryid\\abc\\final\\".to_vec()], |t| gamespy::one::query_vars(&addr(), t), |m| {
            let mut v: Vec<_> = m.iter().collect();
            v.sort();
            format!("{v:?}")
        }));
        let st = Gs2State::gen(rng, 2, 1, 1);
        v.push(simple_subject("gamespy2", |d| d == GS2_REQUEST, vec![st.encode(rng)], vec![vec![0x01]], |t| gamespy::two::query(&addr(), t).map(|mut r| {
            r.unused_entries.clear();
            r
        }), dbg));
        for (ver, name) in [(Ver::One, "quake1"), (Ver::Two, "quake2"), (Ver::Three, "quake3")] {
            let st = QState::gen(rng, ver, 2, 0);
            let d = st.encode(rng);
            let isreq: fn(&[u8]) -> bool = if ver == Ver::Three { |d| d == b"\xff\xff\xff\xffgetstatus\0" } else { |d| d == b"\xff\xff\xff\xffstatus\0" };
            match ver {
                Ver::One => v.push(simple_subject(name, isreq, vec![d], vec![vec![1, 2, 3, 4, 5], b"\xff\xff\xff\xffprint\n\\a\\b\n".to_vec()], |t| quake::one::query(&addr(), t).map(qnorm), dbg)),
                Ver::Two => v.push(simple_subject(name, isreq, vec![d], vec![vec![1, 2, 3, 4, 5], b"\xff\xff\xff\xffstatusResponse\n\\a\\b\n".to_vec()], |t| quake::two::query(&addr(), t).map(qnorm), dbg)),
                Ver::Three => v.push(simple_subject(name, isreq, vec![d], vec![vec![1, 2, 3, 4, 5], b"\xff\xff\xff\xffprint\n\\a\\b\n".to_vec()], |t| quake::three::query(&addr(), t).map(qnorm), dbg)),
            }
        }
        let bed = loop {
            let b = BedrockState::gen(rng);
            if b.known_mode && b.datagram().len() < 1000 {
                break b;
            }
        };
        v.push(simple_subject("bedrock", |d| d == BEDROCK_PING, vec![bed.datagram()], vec![vec![0x00], vec![0x1c, 0x00, 0x01]], |t| games::minecraft::protocol::query_bedrock(&addr(), t), dbg));
        let java = JavaState::gen(rng);
        let stream = java.stream(rng);
        v.push(simple_subject("java", |d| d.len() > 2 && d[1] == 0x00, vec![stream], vec![vec![0x02, 0x05, 0x00], vec![0x03, 0x01, 0x00, 0x00]], |t| games::minecraft::protocol::query_java(&addr(), t, None), dbg));
        for (g, name, req) in [(LegacyGroup::V1_6, "legacy1.6", 0usize), (LegacyGroup::V1_4, "legacy1.4", 1), (LegacyGroup::VB1_8, "legacyb1.8", 2)] {
            let st = LegacyState::gen(rng, g);
            let isreq: fn(&[u8]) -> bool = match req {
                0 => |d| d.starts_with(&[0xfe, 0x01, 0xfa]),
                1 => |d| d == [0xfe, 0x01],
                _ => |d| d == [0xfe],
            };
            v.push(simple_subject(name, isreq, vec![st.stream()], vec![vec![0x00], vec![0xff, 0x00, 0x05, 0x00, 0x41]], move |t| games::minecraft::protocol::query_legacy_specific(g, &addr(), t), dbg));
        }
        let md = loop {
            let d = MindustryState::gen(rng).datagram();
            if d.len() <= 500 {
                break d;
            }
        };
        v.push(simple_subject("mindustry", |d| d == [0xfe, 0x01], vec![md], vec![vec![0x05, 0x01]], |t| games::mindustry::query(&addr().ip(), Some(4000), &t), dbg));
        let mut ff = FfowState::gen(rng);
        ff.challenge = None;
        v.push(simple_subject("ffow", |d| d == b"\xff\xff\xff\xff\x46LSQ", vec![ff.datagram()], vec![vec![0xff, 0xff, 0xff, 0xff, 0x46, 0x01], vec![0xff, 0xff, 0xff, 0xff, 0x49, 0x11, 0x00]], |t| games::ffow::query_with_timeout(&addr().ip(), Some(4000), t), dbg));
    }
    // --- gamespy 3 / jc2m: handshake + data
    {
        let st = Gs3State::gen(rng, 2, 1, 1);
        let p = st.payloads(rng, 2);
        let data = Gs3State::frame(&p);
        v.push(Subject {
            name: "gamespy3",
            positions: 3,
            try_positions: vec![],
            unit: true,
            run_multi: None,
            malformed_alternatives: 2,
            is_attempt: Box::new(|p, d| if p != 1 { d == [0xfe, 0xfd, 0x09, 0, 0, 0, 1] } else { d.len() >= 7 && d[.. 3] == [0xfe, 0xfd, 0x00] }),
            run: Box::new(move |pos, plan, r, alt| {
                let server = Gs3AttemptServer { alt, data: data.clone(), pos, plan: plan.to_vec(), handshakes: 0, data_requests: 0 };
                let run = run_with(server, DEFAULT_STEP_LIMIT, || gamespy::three::query(&addr(), ts(r)).map(|mut x| {
                    x.unused_entries.clear();
                    x
                }));
                (to_r(run.outcome, dbg), run.net)
            }),
        });
        let js = Jc2mState::gen(rng, 2);
        let jd = vec![js.datagram(rng)];
        v.push(Subject {
            name: "jc2m",
            positions: 3,
            try_positions: vec![],
            unit: true,
            run_multi: None,
            malformed_alternatives: 2,
            is_attempt: Box::new(|p, d| if p != 1 { d == [0xfe, 0xfd, 0x09, 0, 0, 0, 1] } else { d.len() >= 7 && d[.. 3] == [0xfe, 0xfd, 0x00] }),
            run: Box::new(move |pos, plan, r, alt| {
                let server = Gs3AttemptServer { alt, data: jd.clone(), pos, plan: plan.to_vec(), handshakes: 0, data_requests: 0 };
                let run = run_with(server, DEFAULT_STEP_LIMIT, || games::jc2m::query_with_timeout(&addr().ip(), Some(4000), ts(r)));
                (to_r(run.outcome, dbg), run.net)
            }),
        });
    }
    // --- unreal 2: info, rules (first packet), players (first packet); Enforce and Try
    for try_mode in [false, true] {
        let mut st = UState::gen(rng, 3, 3);
        st.num_players = 3;
        let (info, rules, players) = (st.info_datagram(), st.rules_datagrams(1), st.players_datagrams(1, true));
        let toggle = if try_mode { GatherToggle::Try } else { GatherToggle::Enforce };
        let gs = unreal2::GatheringSettings { players: toggle, mutators_and_rules: toggle };
        let (info2, rules2, players2) = (info.clone(), rules.clone(), players.clone());
        v.push(Subject {
            name: if try_mode { "unreal2(try)" } else { "unreal2(enforce)" },
            positions: 3,
            unit: false,
            run_multi: Some(Box::new(move |plans, r| {
                let mut server = U2Server::new(info2.clone(), rules2.clone(), players2.clone());
                let valid: [Vec<Vec<u8>>; 3] = [vec![info2.clone()], rules2.clone(), players2.clone()];
                for (pos, plan) in plans.iter().enumerate().take(3) {
                    server.plan[pos] = plan
                        .iter()
                        .map(|a| match a {
                            Att::Valid => UBehaviour::Answer(valid[pos].clone()),
                            Att::Silent => UBehaviour::Silent,
                            Att::SendFails => UBehaviour::SendFails,
                            Att::Malformed => UBehaviour::Answer(vec![vec![0x80, 0, 0, 0, 0x07]]),
                        })
                        .chain(std::iter::once(UBehaviour::Answer(valid[pos].clone())))
                        .collect();
                }
                let run = run_with(server, DEFAULT_STEP_LIMIT, || unreal2::query(&addr(), &gs, ts(r)));
                (to_r(run.outcome, c08_u2_render), run.net)
            })),
            malformed_alternatives: 3,
            try_positions: if try_mode { vec![1, 2] } else { vec![] },
            is_attempt: Box::new(|p, d| d == [0x79, 0, 0, 0, p as u8]),
            run: Box::new(move |pos, plan, r, alt| {
                let mut server = U2Server::new(info.clone(), rules.clone(), players.clone());
                let valid: [Vec<Vec<u8>>; 3] = [vec![info.clone()], rules.clone(), players.clone()];
                server.plan[pos] = plan
                    .iter()
                    .map(|a| match a {
                        Att::Valid => UBehaviour::Answer(valid[pos].clone()),
                        Att::Silent => UBehaviour::Silent,
                        Att::SendFails => UBehaviour::SendFails,
                        // an unknown packet kind, or a packet of one of the two other (valid) kinds
                        Att::Malformed => UBehaviour::Answer(vec![match alt % 3 {
                            0 => vec![0x80, 0, 0, 0, 0x07],
                            a => vec![0x80, 0, 0, 0, ((pos + a) % 3) as u8, 0, 0, 0, 0],
                        }]),
                    })
                    .chain(std::iter::once(UBehaviour::Answer(valid[pos].clone())))
                    .collect();
                let run = run_with(server, DEFAULT_STEP_LIMIT, || unreal2::query(&addr(), &gs, ts(r)));
                (to_r(run.outcome, c08_u2_render), run.net)
            }),
        });
    }
    v
}

fn c08_valve_render(r: &valve::Response) -> String { c08::render_valve(r) }
fn c08_u2_render(r: &unreal2::Response) -> String { c08::render_u2(r) }

pub struct C10;

/// all outcome vectors of length r+2 for r in 0..=rmax
fn vectors(rmax: usize) -> Vec<(usize, Vec<Att>)> {
    let mut out = Vec::new();
    for r in 0 ..= rmax {
        let len = r + 2;
        for code in 0 .. 4usize.pow(len as u32) {
            let mut c = code;
            let v: Vec<Att> = (0 .. len)
                .map(|_| {
                    let a = ATTS[c % 4];
                    c /= 4;
                    a
                })
                .collect();
            out.push((r, v));
        }
    }
    out
}

impl Check for C10 {
    fn id(&self) -> &'static str { "C10" }
    fn level(&self) -> &'static str { "fault_enumeration" }
    fn rule(&self) -> String {
        "for every retrying protocol (Valve info/players/rules with Enforce and Try - each also with 'silent' meaning that the server issues its challenge and then ignores the request carrying it, and with 'silent' meaning that only the first fragment of a split reply arrives -, GameSpy 1, 2, 3 and JC2-MP (handshake / data / alternating within the handshake-plus-request unit, whose wire sequence must be whole units), Quake 1/2/3, Unreal 2 info/rules/players with Enforce and Try, Java, Bedrock, legacy x3, Mindustry, FFOW) and every request position: all per-attempt outcome vectors over {silent, send-fails, malformed, valid} of length r+2 for r = 0..2 (quick) / 0..3 (thorough) injected at that position, other positions answered validly. From the transport log and the result: attempts at the position = min(index of first non-timeout outcome + 1, r+1); none after a malformed reply; first non-timeout outcome valid => result equals the fault-free result; malformed => failure of a non-timeout kind (or the Try section absent); all r+1 timeouts => PacketReceive/PacketSend (or the Try section absent). For Valve and Unreal 2 also every combination of 0..r timeouts at two or three positions of one query (the retry count is per request). non-trivial = vectors containing at least one fault; distinct by (protocol, position, r, vector)".into()
    }
    fn assumptions(&self) -> Vec<String> {
        vec![
            "attempts are identified on the wire by the un-challenged / initial request of the unit (DESIGN.md section 4 C10)".into(),
            "malformed replies are fixed byte strings chosen per protocol to fail decoding with a non-timeout kind".into(),
            "one fixed server state per protocol and run (the retry logic does not look at the reply contents beyond success/failure)".into(),
        ]
    }
    fn total_cases(&self, tier: Tier) -> u64 {
        // one case = one (subject, position); vectors are enumerated inside
        let mut rng = Rng::new(1);
        let n: usize = subjects(&mut rng).iter().map(|s| s.positions).sum();
        let _ = tier;
        n as u64
    }
    fn exhaustive(&self, _tier: Tier) -> Option<bool> { Some(true) }
    fn run_case(&mut self, cx: &mut Cx) {
        let mut srng = Rng::for_case(cx.seed, "C10-subjects", 0);
        let subs = subjects(&mut srng);
        let mut idx = cx.idx as usize;
        let mut chosen = None;
        for s in &subs {
            if idx < s.positions {
                chosen = Some((s, idx));
                break;
            }
            idx -= s.positions;
        }
        let Some((s, pos)) = chosen else { return };
        let rmax = cx.tier.pick(2, 3);
        // baselines: fault-free, and (for Try positions) the result with that section absent = all-timeouts run
        let (base, _) = (s.run)(pos, &[], 0, 0);
        let base = match base {
            Outcome::Returned(Ok(b)) => b,
            other => {
                cx.violation(format!("C10 {} baseline-fails", s.name), || json!({"subject": s.name, "position": pos, "outcome": format!("{other:?}")}));
                return;
            }
        };
        let is_try = s.try_positions.contains(&pos);
        let absent_baseline: Option<String> = if is_try {
            match (s.run)(pos, &[Att::Silent], 0, 0).0 {
                Outcome::Returned(Ok(b)) => Some(b),
                _ => None,
            }
        } else {
            None
        };
        // the retry count is per request, not a budget for the query: timeouts at two or three positions of one query,
        // each within its own r, still end in the fault-free result with k+1 attempts at each faulted position
        if pos == 0 {
            if let Some(run_multi) = &s.run_multi {
                for r in 1usize ..= rmax {
                    for code in 0 .. (r + 1).pow(s.positions as u32) {
                        let ks: Vec<usize> = (0 .. s.positions).map(|p| (code / (r + 1).pow(p as u32)) % (r + 1)).collect();
                        if ks.iter().filter(|k| **k > 0).count() < 2 {
                            continue;
                        }
                        let fault = if code % 2 == 0 { Att::Silent } else { Att::SendFails };
                        let plans: Vec<Vec<Att>> = ks.iter().map(|k| vec![fault; *k]).collect();
                        let (out, net) = run_multi(&plans, r);
                        cx.eval();
                        cx.count("multi-position-vectors");
                        let seen: Vec<usize> = (0 .. s.positions).map(|p| net.sends().iter().filter(|(_, d)| (s.is_attempt)(p, d)).count()).collect();
                        let want: Vec<usize> = ks.iter().map(|k| k + 1).collect();
                        let detail = |what: &str| json!({"what": what, "subject": s.name, "retries": r, "timeouts_per_position": ks, "attempts_seen_per_position": seen, "attempts_expected_per_position": want, "outcome": format!("{out:?}").chars().take(300).collect::<String>()});
                        cx.nontrivial(hash64(format!("{}|multi|{r}|{ks:?}|{fault:?}", s.name).as_bytes()));
                        match &out {
                            Outcome::Returned(Ok(b)) if *b == base && seen == want => {}
                            Outcome::Returned(Ok(b)) if *b == base => cx.violation(format!("C10 {} multi-position attempts-differ", s.name), || detail("attempts")),
                            _ => cx.violation(format!("C10 {} multi-position result-differs-from-fault-free", s.name), || detail("each position had at most r timeouts, so the query must succeed")),
                        }
                    }
                }
            }
        }
        let alts = s.malformed_alternatives.max(1);
        for (alt, (r, v)) in (0 .. alts).flat_map(|a| vectors(rmax).into_iter().map(move |x| (a, x))) {
            // the other malformed replies only matter for vectors that contain one
            if alt > 0 && !v.contains(&Att::Malformed) {
                continue;
            }
            let (out, net) = (s.run)(pos, &v, r, alt);
            cx.eval();
            let attempts = net.sends().iter().filter(|(_, d)| (s.is_attempt)(pos, d)).count();
            let window = &v[.. r + 1];
            let first_nt = window.iter().position(|a| matches!(a, Att::Malformed | Att::Valid));
            let expected_attempts = first_nt.map(|i| i + 1).unwrap_or(r + 1);
            let label = format!("{}|pos={pos}|r={r}", s.name);
            if alt > 0 {
                cx.count("vectors-with-an-alternative-malformed-reply");
            }
            let detail = |what: &str| json!({"what": what, "subject": s.name, "position": pos, "retries": r, "vector": format!("{v:?}"), "malformed_reply_variant": alt, "attempts_seen": attempts, "attempts_expected": expected_attempts, "outcome": format!("{out:?}").chars().take(300).collect::<String>(), "sends": net.sends().iter().map(|(_, d)| hex(d)).collect::<Vec<_>>()});
            if v.iter().any(|a| *a != Att::Valid) {
                cx.nontrivial(hash64(format!("{label}|{v:?}|{alt}").as_bytes()));
            }
            cx.shape(&label);
            match &out {
                Outcome::Panicked(p) => {
                    cx.violation(format!("C10 panic at {} msg=\"{}\"", p.loc, norm_msg(&p.msg)), || detail("panic"));
                    continue;
                }
                Outcome::StepLimit { .. } => {
                    cx.violation(format!("C10 {} step-limit", s.name), || detail("step limit"));
                    continue;
                }
                _ => {}
            }
            if s.unit {
                // the unit is handshake + data request: a data request is only ever sent right after the handshake of the same attempt
                let seq: Vec<u8> = net.sends().iter().filter_map(|(_, d)| if d.len() >= 3 && d[.. 2] == [0xfe, 0xfd] { Some(d[2]) } else { None }).collect();
                let orphan = seq.iter().enumerate().any(|(i, k)| *k == 0x00 && (i == 0 || seq[i - 1] != 0x09));
                let hs = seq.iter().filter(|k| **k == 0x09).count();
                cx.count("unit-sequences-checked");
                if orphan {
                    cx.violation(format!("C10 {} pos={pos} data-request-without-its-own-handshake", s.name), || detail("a data request was re-sent without repeating the handshake of the unit"));
                    continue;
                }
                if pos != 0 && hs != expected_attempts {
                    cx.violation(format!("C10 {} pos={pos} unit-attempts-differ handshakes", s.name), || detail(&format!("{hs} handshakes for {expected_attempts} expected attempts of the unit")));
                    continue;
                }
            }
            if attempts != expected_attempts {
                let class = if attempts > expected_attempts {
                    if first_nt.map(|i| window[i] == Att::Malformed).unwrap_or(false) { "retried-after-malformed" } else if first_nt.is_some() { "retried-after-success" } else { "too-many-attempts" }
                } else {
                    "too-few-attempts"
                };
                cx.violation(format!("C10 {} pos={pos} {class}", s.name), || detail(class));
                continue;
            }
            let Outcome::Returned(res) = &out else { continue };
            match first_nt.map(|i| window[i]) {
                Some(Att::Valid) => {
                    if res.as_ref().ok() != Some(&base) {
                        cx.violation(format!("C10 {} pos={pos} result-differs-from-fault-free", s.name), || detail("result differs"));
                    }
                }
                Some(_) => {
                    // malformed
                    match res {
                        Err(k) if !matches!(k, GDErrorKind::PacketReceive | GDErrorKind::PacketSend) => {}
                        Ok(b) if is_try && absent_baseline.as_ref() == Some(b) => {}
                        _ => cx.violation(format!("C10 {} pos={pos} malformed-reply-not-a-non-timeout-failure", s.name), || detail("malformed outcome")),
                    }
                }
                None => match res {
                    Err(GDErrorKind::PacketReceive) | Err(GDErrorKind::PacketSend) => {
                        let last = window[r];
                        let want = if last == Att::SendFails { GDErrorKind::PacketSend } else { GDErrorKind::PacketReceive };
                        if res.as_ref().err() != Some(&want) {
                            cx.observe("all attempts timed out: error kind is timeout-class but not the last attempt's");
                        }
                    }
                    Ok(b) if is_try && absent_baseline.as_ref() == Some(b) => {}
                    _ => cx.violation(format!("C10 {} pos={pos} all-timeouts-not-a-timeout-failure", s.name), || detail("all attempts timed out")),
                },
            }
        }
        cx.sample(|| json!({"subject": s.name, "position": pos, "vectors": vectors(rmax).len()}));
    }
    fn sufficient(&self, _tier: Tier, m: &Stats) -> Result<(), String> {
        if m.shapes.len() < 20 {
            return Err(format!("only {} (protocol, position, r) combinations ran", m.shapes.len()));
        }
        Ok(())
    }
    fn extra_coverage(&self, tier: Tier, m: &Stats) -> Value { json!({"protocol_position_r_combinations": m.shapes.len(), "vectors_per_position": vectors(tier.pick(2, 3)).len()}) }
    fn max_workers(&self, _tier: Tier) -> usize { 16 }
}

pub fn _kn(k: &GDErrorKind) -> &'static str { kind_name(k) }
