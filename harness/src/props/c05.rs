//! C05 — Quake 1/2/3 status replies yield all variables and players.

use crate::core::framework::{Check, Cx, Stats, Tier};
use crate::core::monitor::{kind_name, norm_msg, run_with, Outcome, DEFAULT_STEP_LIMIT};
use crate::core::rng::hash64;
use crate::models::gamespy::OneShotUdp;
use crate::models::quake::{QState, Ver};
use crate::props::c02::addr;
use gamedig::protocols::quake;
use serde_json::{json, Value};

pub struct C05;

fn cmp<P: PartialEq + std::fmt::Debug>(got: &quake::Response<P>, exp: &quake::Response<P>) -> Option<(String, String)> {
    if got.name != exp.name {
        return Some(("wrong-field field=name".into(), String::new()));
    }
    if got.map != exp.map {
        return Some(("wrong-field field=map".into(), String::new()));
    }
    if got.players_maximum != exp.players_maximum {
        return Some(("wrong-field field=players_maximum".into(), String::new()));
    }
    if got.game_version != exp.game_version {
        return Some(("wrong-field field=game_version".into(), String::new()));
    }
    if got.players.len() != exp.players.len() {
        let sig = if got.players.is_empty() { "players-empty" } else { "players-count" };
        return Some((sig.into(), format!("got {} expected {}", got.players.len(), exp.players.len())));
    }
    if got.players != exp.players {
        let i = got.players.iter().zip(&exp.players).position(|(a, b)| a != b).unwrap_or(0);
        return Some(("players-content".into(), format!("player {i}: got {:?} expected {:?}", got.players[i], exp.players[i])));
    }
    if got.players_online != exp.players_online {
        return Some(("wrong-field field=players_online".into(), String::new()));
    }
    if got.unused_entries != exp.unused_entries {
        let missing = exp.unused_entries.keys().find(|k| !got.unused_entries.contains_key(*k));
        let extra = got.unused_entries.keys().find(|k| !exp.unused_entries.contains_key(*k));
        let sig = if missing.is_some() { "unused_entries missing-entry" } else if extra.is_some() { "unused_entries extra-entry" } else { "unused_entries wrong-value" };
        return Some((sig.into(), format!("missing {missing:?} extra {extra:?}")));
    }
    None
}

impl Check for C05 {
    fn id(&self) -> &'static str { "C05" }
    fn memcheck_plan(&self, tier: Tier) -> Option<(crate::core::framework::MemMode, Vec<(u64, u64)>)> {
        if tier != Tier::Thorough {
            return None;
        }
        let total = self.total_cases(tier);
        let n = 1000u64.min(total / 16);
        Some((crate::core::framework::MemMode::Harness, (0 .. 16).map(|i| (i * (total / 16), n)).collect()))
    }
    fn miri_plan(&self, tier: Tier) -> Option<Vec<(u64, u64)>> {
        if tier != Tier::Thorough {
            return None;
        }
        Some((0 .. 16).map(|i| (i * 30, 30)).collect())
    }
    fn rule(&self) -> String {
        "random Quake 1/2/3 status replies (alternate key spellings, 0-64 player lines, quoted and unquoted names, optional address, trailing newline present/absent) encoded by an independent model; the query must return the named variables, one player per line with that line's fields, players_online = number of lines, and the other variables unchanged. non-trivial = Ok and equal; distinct by datagram bytes".into()
    }
    fn assumptions(&self) -> Vec<String> {
        vec![
            "format as in DESIGN.md Appendix A.5; domain: keys/values without backslash, newline, NUL; names without space or double quote (the line format is ambiguous there); empty names are sent quoted".into(),
            "replies larger than the 1024 byte datagram the client reads are observe-only".into(),
        ]
    }
    fn total_cases(&self, tier: Tier) -> u64 { tier.pick(600_000, 2_000_000) }
    fn run_case(&mut self, cx: &mut Cx) {
        let ver = [Ver::One, Ver::Two, Ver::Three][(cx.idx % 3) as usize];
        let np = match cx.rng.below(8) {
            0 => 0,
            1 => 1,
            2 => 2,
            3 => 64,
            4 => cx.rng.usize(20, 63),
            _ => cx.rng.usize(0, 12),
        };
        let ne = cx.rng.usize(0, 8);
        let st = QState::gen(&mut cx.rng, ver, np, ne);
        let d = st.encode(&mut cx.rng);
        let ts = gamedig::TimeoutSettings::new(None, None, None, cx.rng.below(2) as usize).ok();
        let a = addr(27960);
        let shape = format!("q{ver:?}|np={}|ne={}|nl={}|keys={}{}{}|ver={:?}", if np > 12 { 13 } else { np }, ne.min(4), st.trailing_newline, st.name_key.len(), st.map_key.len(), st.max_key.len(), st.version.as_ref().map(|v| v.0));
        cx.eval();
        cx.shape(&shape);
        if d.len() > 1024 {
            cx.observe("reply larger than the 1024 byte datagram the client reads");
            return;
        }
        let text = String::from_utf8_lossy(&d[4 ..]).to_string();
        let detail = |what: String| json!({"what": what, "version": format!("{ver:?}"), "shape": shape, "reply_after_header": text});
        let server = OneShotUdp::new(&st.request(), vec![d.clone()]);
        let res: (Outcome<Result<Option<(String, String)>, gamedig::GDError>>, usize) = match ver {
            Ver::One => {
                let run = run_with(server, DEFAULT_STEP_LIMIT, || quake::one::query(&a, ts).map(|g| cmp(&g, &st.expected_one())));
                let n = run.server.borrow().bad_requests.len();
                (run.outcome, n)
            }
            Ver::Two => {
                let run = run_with(server, DEFAULT_STEP_LIMIT, || quake::two::query(&a, ts).map(|g| cmp(&g, &st.expected_two())));
                let n = run.server.borrow().bad_requests.len();
                (run.outcome, n)
            }
            Ver::Three => {
                let run = run_with(server, DEFAULT_STEP_LIMIT, || quake::three::query(&a, ts).map(|g| cmp(&g, &st.expected_two())));
                let n = run.server.borrow().bad_requests.len();
                (run.outcome, n)
            }
        };
        if np > 0 {
            cx.count("states-with-players");
        }
        match res.0 {
            Outcome::Returned(Ok(None)) => {
                if np > 0 {
                    cx.count("all-players-returned");
                }
                cx.nontrivial(hash64(&d));
                cx.sample(|| json!({"version": format!("{ver:?}"), "shape": shape, "reply_after_header": text}));
            }
            Outcome::Returned(Ok(Some((sig, what)))) => cx.violation(format!("C05 q{ver:?} {sig}"), || detail(what.clone())),
            Outcome::Returned(Err(e)) => cx.violation(format!("C05 q{ver:?} valid-reply-rejected kind={}", kind_name(&e.kind)), || detail(format!("{:?}", e.kind))),
            Outcome::Panicked(p) => cx.violation(format!("C05 panic at {} msg=\"{}\"", p.loc, norm_msg(&p.msg)), || detail(p.msg.clone())),
            Outcome::StepLimit { .. } => cx.violation("C05 step-limit", || detail("step limit".into())),
        }
    }
    fn sufficient(&self, _tier: Tier, m: &Stats) -> Result<(), String> {
        let with = m.counters.get("states-with-players").copied().unwrap_or(0);
        if with < 300 {
            return Err(format!("only {with} states with players reached the comparison"));
        }
        Ok(())
    }
    fn extra_coverage(&self, _tier: Tier, m: &Stats) -> Value {
        json!({"states_with_players_whose_players_all_came_back": [m.counters.get("all-players-returned"), m.counters.get("states-with-players")]})
    }
}
