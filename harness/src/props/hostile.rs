//! Shared machinery of C01 / C13: the table of public entry points, well-formed seed scripts taken from
//! the server models, the hostile mutators, and one monitored execution of an entry point against a
//! static reply script.

use crate::core::alloc::AllocStats;
use crate::core::monitor::{kind_name, run_with, Outcome, PanicInfo};
use crate::core::net::{ScriptServer, Server};
use crate::core::rng::Rng;
use crate::models::game_tables::VALVE_GAMES;
use crate::models::gamespy::{Gs1State, Gs2State, Gs3Server, Gs3State, OneShotUdp, GS1_REQUEST, GS2_REQUEST};
use crate::models::master::{page, PagesServer};
use crate::models::minecraft::{BedrockState, JavaState, LegacyState, McServerModel, NonAnswer};
use crate::models::misc::{FfowServer, FfowState, Jc2mState, MindustryState, Savage2State};
use crate::models::quake::{QState, Ver};
use crate::models::unreal2::{U2Server, UState};
use crate::props::c02::{build, engine_classes};
use gamedig::games::minecraft::LegacyGroup;
use gamedig::protocols::types::{ExtraRequestSettings, GatherToggle, Protocol, ProprietaryProtocol};
use gamedig::protocols::valve::{Engine, GatheringSettings};
use gamedig::protocols::{gamespy, quake, unreal2, valve};
use gamedig::services::valve_master_server::{Filter, Region, SearchFilters, ValveMasterServer};
use gamedig::{games, GDResult, TimeoutSettings};
use std::net::{IpAddr, Ipv4Addr, SocketAddr};

#[derive(Debug, Clone, PartialEq)]
pub enum Ep {
    Valve(usize), // engine class index
    ValveGame(usize),
    Gs1,
    Gs1Vars,
    Gs2,
    Gs3,
    Gs3Vars,
    Quake(u8),
    Unreal2,
    McAuto,
    McAutoGame,
    McJava,
    McBedrock,
    McLegacy,
    McLegacySpecific(u8),
    Ffow,
    Savage2,
    Jc2m,
    Mindustry,
    TheShip,
    Battalion,
    MasterQuery,
    MasterSpecific,
    /// generic dispatch for the n-th entry of GAMES (sorted by id)
    Generic(usize),
}

pub fn game_ids() -> Vec<&'static str> {
    let mut v: Vec<&'static str> = gamedig::GAMES.keys().copied().collect();
    v.sort();
    v
}

pub fn all_eps() -> Vec<Ep> {
    let mut v = Vec::new();
    for i in 0 .. engine_classes().len() {
        v.push(Ep::Valve(i));
    }
    // a sample of the generated per-game wrappers (every 8th, so different gather settings are hit)
    for i in (0 .. VALVE_GAMES.len()).step_by(8) {
        v.push(Ep::ValveGame(i));
    }
    v.extend([Ep::Gs1, Ep::Gs1Vars, Ep::Gs2, Ep::Gs3, Ep::Gs3Vars, Ep::Quake(1), Ep::Quake(2), Ep::Quake(3), Ep::Unreal2]);
    v.extend([Ep::McAuto, Ep::McAutoGame, Ep::McJava, Ep::McBedrock, Ep::McLegacy, Ep::McLegacySpecific(0), Ep::McLegacySpecific(1), Ep::McLegacySpecific(2)]);
    v.extend([Ep::Ffow, Ep::Savage2, Ep::Jc2m, Ep::Mindustry, Ep::TheShip, Ep::Battalion, Ep::MasterQuery, Ep::MasterSpecific]);
    for (i, id) in game_ids().iter().enumerate() {
        if *id != "eco" {
            v.push(Ep::Generic(i));
        }
    }
    v
}

pub fn ep_name(ep: &Ep) -> String {
    match ep {
        Ep::Valve(i) => format!("valve::query[{}]", engine_classes()[*i].0),
        Ep::ValveGame(i) => format!("games::{}::query", VALVE_GAMES[*i].0),
        Ep::Generic(i) => format!("generic[{}]", game_ids()[*i]),
        Ep::Quake(v) => format!("quake::{v}::query"),
        Ep::McLegacySpecific(g) => format!("minecraft::query_legacy_specific[{g}]"),
        other => format!("{other:?}"),
    }
}

/// family name used for grouping in evidence / signatures
pub fn ep_family(ep: &Ep) -> &'static str {
    match ep {
        Ep::Valve(_) | Ep::ValveGame(_) | Ep::TheShip | Ep::Battalion => "valve",
        Ep::Gs1 | Ep::Gs1Vars => "gamespy1",
        Ep::Gs2 => "gamespy2",
        Ep::Gs3 | Ep::Gs3Vars | Ep::Jc2m => "gamespy3",
        Ep::Quake(_) => "quake",
        Ep::Unreal2 => "unreal2",
        Ep::McAuto | Ep::McAutoGame | Ep::McJava | Ep::McBedrock | Ep::McLegacy | Ep::McLegacySpecific(_) => "minecraft",
        Ep::Ffow => "ffow",
        Ep::Savage2 => "savage2",
        Ep::Mindustry => "mindustry",
        Ep::MasterQuery | Ep::MasterSpecific => "master",
        Ep::Generic(_) => "generic",
    }
}

#[derive(Debug, Clone)]
pub struct Settings {
    pub retries: usize,
    pub timeouts_some: bool,
    pub gather_players: GatherToggle,
    pub gather_rules: GatherToggle,
    pub check_app_id: bool,
    pub port: Option<u16>,
    /// use exactly these timeout settings (C18)
    pub ts_override: Option<TimeoutSettings>,
    /// query this address instead of the fixed scripted one (real loopback servers)
    pub ip_override: Option<IpAddr>,
}

impl Settings {
    pub fn gen(rng: &mut Rng) -> Self {
        let t = [GatherToggle::Skip, GatherToggle::Try, GatherToggle::Enforce];
        Self { retries: rng.below(3) as usize, timeouts_some: rng.bool(), gather_players: *rng.pick(&t), gather_rules: *rng.pick(&t), check_app_id: rng.bool(), port: rng.bool().then(|| rng.range(1, 65535) as u16), ts_override: None, ip_override: None }
    }
    pub fn fixed() -> Self { Self { retries: 0, timeouts_some: true, gather_players: GatherToggle::Enforce, gather_rules: GatherToggle::Enforce, check_app_id: false, port: None, ts_override: None, ip_override: None } }
    pub fn ts(&self) -> Option<TimeoutSettings> {
        if let Some(t) = self.ts_override {
            return Some(t);
        }
        if self.timeouts_some {
            TimeoutSettings::new(Some(std::time::Duration::from_millis(50)), Some(std::time::Duration::from_millis(50)), Some(std::time::Duration::from_millis(50)), self.retries).ok()
        } else if self.retries == 0 {
            None
        } else {
            TimeoutSettings::new(None, None, None, self.retries).ok()
        }
    }
    pub fn extra(&self) -> ExtraRequestSettings { ExtraRequestSettings { hostname: Some("verif.example".into()), protocol_version: Some(-1), gather_players: Some(self.gather_players), gather_rules: Some(self.gather_rules), check_app_id: Some(self.check_app_id) } }
}

const IP: IpAddr = IpAddr::V4(Ipv4Addr::new(10, 0, 0, 9));

macro_rules! dispatch {
    ($ep:expr, $s:expr, $f:ident, $g:ident) => {{
        let ep: &Ep = $ep;
        let s: &Settings = $s;
        let ip: IpAddr = s.ip_override.unwrap_or(IP);
        let sa = SocketAddr::new(ip, s.port.unwrap_or(27015));
        let ts = s.ts();
        match ep {
            Ep::Valve(i) => {
                let gs = GatheringSettings { players: s.gather_players, rules: s.gather_rules, check_app_id: s.check_app_id };
                $f(valve::query(&sa, engine_classes()[*i].1, Some(gs), ts))
            }
            Ep::ValveGame(i) => $f((VALVE_GAMES[*i].2)(&ip, s.port)),
            Ep::Gs1 => $f(gamespy::one::query(&sa, ts)),
            Ep::Gs1Vars => $f(gamespy::one::query_vars(&sa, ts)),
            Ep::Gs2 => $f(gamespy::two::query(&sa, ts)),
            Ep::Gs3 => $f(gamespy::three::query(&sa, ts)),
            Ep::Gs3Vars => $f(gamespy::three::query_vars(&sa, ts)),
            Ep::Quake(1) => $f(quake::one::query(&sa, ts)),
            Ep::Quake(2) => $f(quake::two::query(&sa, ts)),
            Ep::Quake(_) => $f(quake::three::query(&sa, ts)),
            Ep::Unreal2 => $f(unreal2::query(&sa, &unreal2::GatheringSettings { players: s.gather_players, mutators_and_rules: s.gather_rules }, ts)),
            Ep::McAuto => $f(games::minecraft::protocol::query(&sa, ts, None)),
            Ep::McAutoGame => $f(games::minecraft::query(&ip, s.port)),
            Ep::McJava => $f(games::minecraft::protocol::query_java(&sa, ts, Some(games::minecraft::RequestSettings { hostname: "h".into(), protocol_version: 765 }))),
            Ep::McBedrock => $f(games::minecraft::protocol::query_bedrock(&sa, ts)),
            Ep::McLegacy => $f(games::minecraft::protocol::query_legacy(&sa, ts)),
            Ep::McLegacySpecific(g) => $f(games::minecraft::protocol::query_legacy_specific([LegacyGroup::V1_6, LegacyGroup::V1_4, LegacyGroup::VB1_8][*g as usize], &sa, ts)),
            Ep::Ffow => $f(games::ffow::query_with_timeout(&ip, s.port, ts)),
            Ep::Savage2 => $f(games::savage2::query_with_timeout(&ip, s.port, ts)),
            Ep::Jc2m => $f(games::jc2m::query_with_timeout(&ip, s.port, ts)),
            Ep::Mindustry => $f(games::mindustry::query(&ip, s.port, &ts)),
            Ep::TheShip => $f(games::theship::query_with_timeout(&ip, s.port, ts)),
            Ep::Battalion => $f(games::battalion1944::query(&ip, s.port)),
            Ep::MasterQuery => {
                let f = SearchFilters::new().insert(Filter::RunsAppID(440)).insert_nand(Filter::IsEmpty(true));
                $f(ValveMasterServer::new(&sa).and_then(|mut m| m.query(Region::Europe, Some(f))))
            }
            Ep::MasterSpecific => $f(ValveMasterServer::new(&sa).and_then(|mut m| m.query_specific(Region::Others, &None, "1.2.3.4", 27015))),
            Ep::Generic(i) => {
                let g = gamedig::GAMES.get(game_ids()[*i]).unwrap();
                $g(gamedig::query_with_timeout_and_extra_settings(g, &ip, s.port, ts, if s.check_app_id { Some(s.extra()) } else { None }))
            }
        }
    }};
}

/// Call the entry point; the result value is dropped, only its class is kept.
pub fn call(ep: &Ep, s: &Settings) -> Result<(), gamedig::GDErrorKind> {
    fn unit<T>(r: GDResult<T>) -> Result<(), gamedig::GDErrorKind> { r.map(|_| ()).map_err(|e| e.kind) }
    dispatch!(ep, s, unit, unit)
}

/// Call the entry point and render the result canonically (JSON text, sets sorted).
pub fn call_render(ep: &Ep, s: &Settings) -> Result<String, gamedig::GDErrorKind> {
    /// canonical text: object keys sorted (serde_json may preserve insertion order), sets sorted
    fn canon(v: &mut serde_json::Value) {
        match v {
            serde_json::Value::Object(m) => {
                let mut entries: Vec<(String, serde_json::Value)> = std::mem::take(m).into_iter().collect();
                entries.sort_by(|a, b| a.0.cmp(&b.0));
                for (k, mut x) in entries {
                    if k == "mutators" {
                        if let serde_json::Value::Array(a) = &mut x {
                            a.sort_by_key(|e| e.to_string());
                        }
                    }
                    canon(&mut x);
                    m.insert(k, x);
                }
            }
            serde_json::Value::Array(a) => a.iter_mut().for_each(canon),
            _ => {}
        }
    }
    fn val<T: serde::Serialize>(r: GDResult<T>) -> Result<String, gamedig::GDErrorKind> {
        r.map(|t| {
            let mut v = serde_json::to_value(t).unwrap_or(serde_json::Value::Null);
            canon(&mut v);
            v.to_string()
        })
        .map_err(|e| e.kind)
    }
    fn boxed(r: GDResult<Box<dyn gamedig::protocols::types::CommonResponse>>) -> Result<String, gamedig::GDErrorKind> {
        r.map(|b| {
            let mut v = serde_json::to_value(b.as_original()).unwrap_or(serde_json::Value::Null);
            canon(&mut v);
            v.to_string()
        })
        .map_err(|e| e.kind)
    }
    dispatch!(ep, s, val, boxed)
}

/// A reactive, well-formed server for the entry point (small state), used to record a seed script.
pub fn seed_server(ep: &Ep, rng: &mut Rng) -> Box<dyn Server> {
    fn valve_server(rng: &mut Rng, engine: &Engine) -> Box<dyn Server> {
        let appid = match engine {
            Engine::Source(Some((a, _))) => *a,
            _ => 70,
        };
        let mut b = build(rng, engine, appid, rng.clone().usize(0, 3), rng.clone().usize(0, 3), false);
        // keep seeds small: no challenge rounds beyond one
        for r in b.server.rounds.iter_mut() {
            *r = (*r).min(1);
        }
        Box::new(std::mem::replace(&mut b.server, crate::models::valve::A2sServer::new(vec![], vec![], vec![])))
    }
    fn mc(rng: &mut Rng, which: &[usize]) -> Box<dyn Server> {
        let java = JavaState::gen(rng);
        let bed = loop {
            let b = BedrockState::gen(rng);
            if b.known_mode && b.datagram().len() < 900 {
                break b;
            }
        };
        let all: [Vec<u8>; 5] = [java.stream(rng), bed.datagram(), LegacyState::gen(rng, LegacyGroup::V1_6).stream(), LegacyState::gen(rng, LegacyGroup::V1_4).stream(), LegacyState::gen(rng, LegacyGroup::VB1_8).stream()];
        let mut answers: [Option<Vec<u8>>; 5] = Default::default();
        for w in which {
            answers[*w] = Some(all[*w].clone());
        }
        Box::new(McServerModel::new(answers, [NonAnswer::CloseEmpty; 5], vec![]))
    }
    match ep {
        Ep::Valve(i) => valve_server(rng, &engine_classes()[*i].1),
        Ep::ValveGame(i) => {
            let pretty = VALVE_GAMES[*i].1;
            let engine = gamedig::GAMES.values().find(|g| g.name.eq_ignore_ascii_case(pretty)).and_then(|g| match &g.protocol {
                Protocol::Valve(e) => Some(*e),
                _ => None,
            });
            valve_server(rng, &engine.unwrap_or(Engine::Source(None)))
        }
        Ep::TheShip => valve_server(rng, &Engine::new(2400)),
        Ep::Battalion => valve_server(rng, &Engine::new(489_940)),
        Ep::Gs1 | Ep::Gs1Vars => {
            let st = Gs1State::gen(rng, rng.clone().usize(0, 3), rng.clone().usize(0, 2));
            let d = st.encode(rng, rng.clone().usize(1, 3));
            Box::new(OneShotUdp::new(GS1_REQUEST, d))
        }
        Ep::Gs2 => {
            let st = Gs2State::gen(rng, rng.clone().usize(0, 3), rng.clone().usize(0, 2), rng.clone().usize(0, 2));
            Box::new(OneShotUdp::new(GS2_REQUEST, vec![st.encode(rng)]))
        }
        Ep::Gs3 | Ep::Gs3Vars => {
            let st = Gs3State::gen(rng, rng.clone().usize(0, 3), rng.clone().usize(0, 2), rng.clone().usize(0, 2));
            let p = st.payloads(rng, rng.clone().usize(1, 3));
            Box::new(Gs3Server::new(&rng.below(1 << 31).to_string(), Gs3State::frame(&p)))
        }
        Ep::Jc2m => {
            let st = Jc2mState::gen(rng, rng.clone().usize(0, 3));
            let mut s = Gs3Server::new("12345", vec![st.datagram(rng)]);
            s.payload = [0xff, 0xff, 0xff, 0x02];
            Box::new(s)
        }
        Ep::Quake(v) => {
            let ver = [Ver::One, Ver::Two, Ver::Three][(*v - 1) as usize];
            let st = QState::gen(rng, ver, rng.clone().usize(0, 3), rng.clone().usize(0, 2));
            let d = st.encode(rng);
            Box::new(OneShotUdp::new(&st.request(), vec![d]))
        }
        Ep::Unreal2 => {
            let st = UState::gen(rng, rng.clone().usize(0, 3), rng.clone().usize(0, 3));
            Box::new(U2Server::new(st.info_datagram(), st.rules_datagrams(rng.clone().usize(1, 2)), st.players_datagrams(rng.clone().usize(1, 2), true)))
        }
        Ep::McAuto | Ep::McAutoGame => {
            let k = rng.below(5) as usize;
            mc(rng, &[k])
        }
        Ep::McJava => mc(rng, &[0]),
        Ep::McBedrock => mc(rng, &[1]),
        Ep::McLegacy => {
            let k = 2 + rng.below(3) as usize;
            mc(rng, &[k])
        }
        Ep::McLegacySpecific(g) => mc(rng, &[2 + *g as usize]),
        Ep::Ffow => {
            let st = FfowState::gen(rng);
            Box::new(FfowServer { reply: st.datagram(), challenge: st.challenge, issued: false, requests: vec![], errors: vec![] })
        }
        Ep::Savage2 => Box::new(OneShotUdp::new(&[0x01], vec![Savage2State::gen(rng).datagram()])),
        Ep::Mindustry => {
            let d = loop {
                let d = MindustryState::gen(rng).datagram();
                if d.len() <= 500 {
                    break d;
                }
            };
            Box::new(OneShotUdp::new(&[0xfe, 0x01], vec![d]))
        }
        Ep::MasterQuery | Ep::MasterSpecific => {
            let mut pages = Vec::new();
            let n = rng.usize(1, 3);
            for i in 0 .. n {
                let mut e: Vec<(Ipv4Addr, u16)> = (0 .. rng.usize(0, 4)).map(|_| (Ipv4Addr::new(rng.u8().max(1), rng.u8(), rng.u8(), rng.u8()), rng.b_u16().max(1))).collect();
                if i + 1 == n {
                    e.push((Ipv4Addr::new(0, 0, 0, 0), 0));
                }
                pages.push(page(&e));
            }
            Box::new(PagesServer { pages, requests: vec![] })
        }
        Ep::Generic(i) => {
            let g = gamedig::GAMES.get(game_ids()[*i]).unwrap();
            match &g.protocol {
                Protocol::Valve(e) => valve_server(rng, e),
                Protocol::Gamespy(v) => match v {
                    gamespy::GameSpyVersion::One => seed_server(&Ep::Gs1, rng),
                    gamespy::GameSpyVersion::Two => seed_server(&Ep::Gs2, rng),
                    gamespy::GameSpyVersion::Three => seed_server(&Ep::Gs3, rng),
                },
                Protocol::Quake(v) => seed_server(&Ep::Quake(match v {
                    quake::QuakeVersion::One => 1,
                    quake::QuakeVersion::Two => 2,
                    quake::QuakeVersion::Three => 3,
                }), rng),
                Protocol::Unreal2 => seed_server(&Ep::Unreal2, rng),
                Protocol::PROPRIETARY(p) => match p {
                    ProprietaryProtocol::TheShip => seed_server(&Ep::TheShip, rng),
                    ProprietaryProtocol::FFOW => seed_server(&Ep::Ffow, rng),
                    ProprietaryProtocol::JC2M => seed_server(&Ep::Jc2m, rng),
                    ProprietaryProtocol::Savage2 => seed_server(&Ep::Savage2, rng),
                    ProprietaryProtocol::Mindustry => seed_server(&Ep::Mindustry, rng),
                    ProprietaryProtocol::Minecraft(None) => seed_server(&Ep::McAuto, rng),
                    ProprietaryProtocol::Minecraft(Some(games::minecraft::Server::Java)) => seed_server(&Ep::McJava, rng),
                    ProprietaryProtocol::Minecraft(Some(games::minecraft::Server::Bedrock)) => seed_server(&Ep::McBedrock, rng),
                    ProprietaryProtocol::Minecraft(Some(games::minecraft::Server::Legacy(grp))) => seed_server(&Ep::McLegacySpecific(match grp {
                        LegacyGroup::V1_6 => 0,
                        LegacyGroup::V1_4 => 1,
                        LegacyGroup::VB1_8 => 2,
                    }), rng),
                    _ => Box::new(ScriptServer::new(vec![])),
                },
            }
        }
    }
}

/// Record the datagrams / streams a well-formed exchange delivers, per connection in order of connection.
pub fn record_seed(ep: &Ep, settings: &Settings, rng: &mut Rng) -> (Vec<Vec<Vec<u8>>>, bool) {
    let server = seed_server(ep, rng);
    let run = run_with(server, 512, || call(ep, settings));
    let ok = matches!(run.outcome, Outcome::Returned(Ok(())));
    let nconn = run.net.conns.len();
    let mut script: Vec<Vec<Vec<u8>>> = vec![Vec::new(); nconn];
    for (c, d) in run.net.delivered_data {
        script[c as usize].push(d);
    }
    (script, ok)
}

// ------------------------------------------------------------------------------------------------
// mutation

pub const BYTE_VALUES: [u8; 8] = [0x00, 0x01, 0x02, 0x7f, 0x80, 0xfe, 0xff, 0x5c];
pub const DECIMALS: [&str; 14] = ["0", "-1", "1", "255", "256", "65535", "65536", "2147483647", "2147483648", "-2147483648", "4294967295", "4294967296", "18446744073709551615", "99999999999999999999999"];

/// total number of bytes in a script (flattened)
pub fn script_len(s: &[Vec<Vec<u8>>]) -> usize { s.iter().flatten().map(Vec::len).sum() }

/// locate flattened byte offset -> (conn, datagram, offset)
pub fn locate(s: &[Vec<Vec<u8>>], mut off: usize) -> Option<(usize, usize, usize)> {
    for (c, ds) in s.iter().enumerate() {
        for (j, d) in ds.iter().enumerate() {
            if off < d.len() {
                return Some((c, j, off));
            }
            off -= d.len();
        }
    }
    None
}

/// cut the datagram containing flattened offset `off` at that offset
pub fn truncate_at(s: &mut [Vec<Vec<u8>>], off: usize) {
    if let Some((c, j, k)) = locate(s, off) {
        s[c][j].truncate(k);
    }
}

pub fn set_byte(s: &mut [Vec<Vec<u8>>], off: usize, v: u8) {
    if let Some((c, j, k)) = locate(s, off) {
        s[c][j][k] = v;
    }
}

fn digit_runs(d: &[u8]) -> Vec<(usize, usize)> {
    let mut out = Vec::new();
    let mut i = 0;
    while i < d.len() {
        if d[i].is_ascii_digit() {
            let st = i;
            while i < d.len() && d[i].is_ascii_digit() {
                i += 1;
            }
            out.push((st, i));
        } else {
            i += 1;
        }
    }
    out
}

/// One random hostile mutation of the script (in place). Returns a short label.
/// A valid bzip2 stream that inflates to `mib` MiB of zeros (made once per process with the system bzip2).
fn bzip2_bomb(mib: usize) -> Option<&'static [u8]> {
    static BOMBS: std::sync::OnceLock<Vec<(usize, Vec<u8>)>> = std::sync::OnceLock::new();
    if cfg!(miri) {
        return None;
    }
    let all = BOMBS.get_or_init(|| [24usize, 40].iter().filter_map(|m| crate::models::valve::bzip2(&vec![0u8; m << 20]).map(|b| (*m, b))).collect());
    all.iter().find(|(m, _)| *m == mib).map(|(_, b)| b.as_slice())
}

/// Replace an A2S reply by a compressed split answer whose bzip2 stream is valid but inflates far beyond the size
/// it declares (the declared size itself is within every limit).
fn compression_bomb(rng: &mut Rng, s: &mut [Vec<Vec<u8>>]) -> bool {
    let cands: Vec<(usize, usize)> = s.iter().enumerate().flat_map(|(c, ds)| ds.iter().enumerate().filter(|(_, d)| d.len() > 5 && d[.. 4] == [0xff, 0xff, 0xff, 0xff] && [0x44u8, 0x45, 0x49, 0x6d].contains(&d[4])).map(move |(j, _)| (c, j))).collect();
    if cands.is_empty() {
        return false;
    }
    let Some(bomb) = bzip2_bomb(*rng.pick(&[24usize, 40])) else { return false };
    let (c, j) = *rng.pick(&cands);
    let declared: u32 = *rng.pick(&[0u32, 1, 100, 1400, 65536, 1 << 20, 4 << 20]);
    let id = rng.u32() | 0x8000_0000;
    let with_size_field = rng.chance(3, 4);
    let n = if rng.bool() { 1 } else { 2 };
    let cut = if n == 1 { bomb.len() } else { rng.usize(1, bomb.len() - 1) };
    let mut frags: Vec<Vec<u8>> = Vec::new();
    for (i, part) in [&bomb[.. cut], &bomb[cut ..]].iter().take(n).enumerate() {
        let mut d = vec![0xfe, 0xff, 0xff, 0xff];
        d.extend(id.to_le_bytes());
        d.push(n as u8);
        d.push(i as u8);
        if with_size_field {
            d.extend(1248u16.to_le_bytes());
        }
        if i == 0 {
            d.extend(declared.to_le_bytes());
            d.extend(rng.u32().to_le_bytes());
        }
        d.extend(*part);
        frags.push(d);
    }
    if n == 2 && rng.bool() {
        frags.swap(0, 1);
    }
    s[c].splice(j ..= j, frags);
    true
}

pub fn mutate(rng: &mut Rng, s: &mut Vec<Vec<Vec<u8>>>, extreme_bias: bool) -> &'static str {
    if rng.chance(1, 20) && compression_bomb(rng, s) {
        return "compression-bomb";
    }
    let total = script_len(s);
    let class = if extreme_bias { rng.below(9) } else { rng.below(16) };
    match class {
        0 if total > 0 => {
            truncate_at(s, rng.usize(0, total - 1));
            "truncate"
        }
        1 | 2 if total > 0 => {
            let v = *rng.pick(&BYTE_VALUES);
            set_byte(s, rng.usize(0, total - 1), v);
            "byte-boundary"
        }
        3 if total > 1 => {
            for _ in 0 .. 2 {
                let v = *rng.pick(&BYTE_VALUES);
                set_byte(s, rng.usize(0, total - 1), v);
            }
            "byte-pair"
        }
        4 if total > 3 => {
            // a 16/32-bit field set to an extreme
            let off = rng.usize(0, total - 1);
            let w = *rng.pick(&[2usize, 4, 8]);
            let val: [u8; 8] = *rng.pick(&[[0xff; 8], [0x00; 8], [0xff, 0xff, 0xff, 0x7f, 0, 0, 0, 0], [0, 0, 0, 0x80, 0, 0, 0, 0], [0xfe, 0xff, 0xff, 0xff, 0xff, 0xff, 0xff, 0xff], [0x7f, 0xff, 0xff, 0xff, 0xff, 0xff, 0xff, 0xff]]);
            for i in 0 .. w {
                set_byte(s, off + i, val[i]);
            }
            "wide-field-extreme"
        }
        5 => {
            // a decimal number replaced by an extreme decimal
            let mut done = false;
            let cands: Vec<(usize, usize)> = s.iter().enumerate().flat_map(|(c, ds)| ds.iter().enumerate().filter(|(_, d)| !digit_runs(d).is_empty()).map(move |(j, _)| (c, j))).collect();
            if !cands.is_empty() {
                let (c, j) = *rng.pick(&cands);
                let runs = digit_runs(&s[c][j]);
                let (a, b) = *rng.pick(&runs);
                let rep = rng.pick(&DECIMALS).as_bytes().to_vec();
                s[c][j].splice(a .. b, rep);
                done = true;
            }
            if done {
                "decimal-extreme"
            } else {
                "none"
            }
        }
        6 if total > 0 => {
            // delete a terminator (NUL, newline or backslash)
            let pos: Vec<usize> = (0 .. total).filter(|o| locate(s, *o).map(|(c, j, k)| matches!(s[c][j][k], 0 | b'\n' | b'\\' | b';' | 0xa7)).unwrap_or(false)).collect();
            if !pos.is_empty() {
                let o = *rng.pick(&pos);
                if let Some((c, j, k)) = locate(s, o) {
                    s[c][j].remove(k);
                }
            }
            "terminator-deleted"
        }
        7 if total > 0 => {
            // VarInt / length prefix inflation: insert continuation bytes
            let off = rng.usize(0, total - 1);
            if let Some((c, j, k)) = locate(s, off) {
                let ins: Vec<u8> = match rng.below(4) {
                    0 => vec![0xff, 0xff, 0xff, 0xff, 0x07],
                    1 => vec![0xff, 0xff, 0xff, 0xff, 0x0f],
                    2 => vec![0x80, 0x80, 0x80, 0x80, 0x80, 0x01],
                    _ => vec![0xff, 0xff, 0x03],
                };
                s[c][j].splice(k .. k, ins);
            }
            "varint-inflate"
        }
        8 if total > 0 && rng.bool() => {
            // valid multi-byte text in an unexpected place (start of a datagram, or instead of a separator)
            let at_start = rng.bool();
            let off = if at_start { 0 } else { rng.usize(0, total - 1) };
            let (c, j, k) = if at_start {
                let cands: Vec<(usize, usize)> = s.iter().enumerate().flat_map(|(c, ds)| ds.iter().enumerate().filter(|(_, d)| !d.is_empty()).map(move |(j, _)| (c, j))).collect();
                let (c, j) = *rng.pick(&cands);
                (c, j, 0)
            } else {
                locate(s, off).unwrap_or((0, 0, 0))
            };
            if !s.is_empty() && c < s.len() && j < s[c].len() && k < s[c][j].len() {
                let ch: Vec<u8> = rng.pick(&["é", "€", "😀", "ß", "中"]).as_bytes().to_vec();
                if rng.bool() {
                    s[c][j].splice(k ..= k, ch);
                } else {
                    s[c][j].splice(k .. k, ch);
                }
            }
            "utf8-multibyte"
        }
        8 if total > 0 => {
            // invalid text: lone surrogate / overlong / stray continuation
            let off = rng.usize(0, total - 1);
            if let Some((c, j, k)) = locate(s, off) {
                let ins: Vec<u8> = match rng.below(4) {
                    0 => vec![0xd8, 0x00],
                    1 => vec![0xc0, 0xaf],
                    2 => vec![0xed, 0xa0, 0x80],
                    _ => vec![0x80],
                };
                s[c][j].splice(k .. k, ins);
            }
            "invalid-text"
        }
        9 => {
            // script level: drop / duplicate / swap / empty / oversize datagrams
            if let Some(ds) = s.iter_mut().filter(|d| !d.is_empty()).nth(0) {
                match rng.below(6) {
                    0 => {
                        let i = rng.usize(0, ds.len() - 1);
                        ds.remove(i);
                    }
                    1 => {
                        let i = rng.usize(0, ds.len() - 1);
                        let d = ds[i].clone();
                        ds.insert(i, d);
                    }
                    2 if ds.len() > 1 => {
                        let i = rng.usize(0, ds.len() - 2);
                        ds.swap(i, i + 1);
                    }
                    3 => {
                        let i = rng.usize(0, ds.len());
                        ds.insert(i, Vec::new());
                    }
                    4 => {
                        let i = rng.usize(0, ds.len() - 1);
                        let fill = rng.u8();
                        ds[i].resize(65536, fill);
                    }
                    _ => ds.reverse(),
                }
            }
            "script-level"
        }
        10 => {
            // endless challenge stream (valve) / handshake replay (bounded by its length)
            let n = rng.usize(8, 200);
            let d: Vec<u8> = match rng.below(3) {
                0 => vec![0xff, 0xff, 0xff, 0xff, 0x41, 1, 2, 3, 4],
                1 => vec![0x09, 0, 0, 0, 1, b'7', 0],
                _ => vec![0xfe, 0xff, 0xff, 0xff, 1, 0, 0, 0, 0xff, 0, 0, 0],
            };
            if s.is_empty() {
                s.push(Vec::new());
            }
            s[0] = std::iter::repeat(d).take(n).collect();
            "repeated-datagram-stream"
        }
        11 if total > 0 => {
            // random tail behind a valid prefix
            let off = rng.usize(0, total - 1);
            if let Some((c, j, k)) = locate(s, off) {
                s[c][j].truncate(k);
                let n = rng.usize(0, 64);
                let tail = rng.bytes(n);
                s[c][j].extend(tail);
            }
            "random-tail"
        }
        12 => {
            // fully random datagrams
            let n = rng.usize(1, 4);
            let ds: Vec<Vec<u8>> = (0 .. n).map(|_| rng.bytes(rng.clone().usize(0, 80))).collect();
            if s.is_empty() {
                s.push(ds);
            } else {
                s[0] = ds;
            }
            "random-datagrams"
        }
        13 if total > 0 => {
            // fragment header games: total / number bytes of split packets, splitnum ids
            for ds in s.iter_mut() {
                for d in ds.iter_mut() {
                    if d.len() > 10 && d[0] == 0xfe {
                        d[8] = *rng.pick(&[0u8, 1, 2, 15, 16, 0x7f, 0x80, 0xff]);
                        if rng.bool() {
                            d[9] = *rng.pick(&[0u8, 1, 2, 0x7f, 0xff]);
                        }
                    } else if d.len() > 15 && &d[5 .. 14] == b"splitnum\0" {
                        d[14] = *rng.pick(&[0u8, 1, 0x7f, 0x80, 0x81, 0xff]);
                    }
                }
            }
            "fragment-header"
        }
        14 if total > 0 => {
            // two mutations
            mutate(rng, s, true);
            mutate(rng, s, false);
            "double"
        }
        _ => {
            // everything silent from some point on
            if let Some(ds) = s.iter_mut().filter(|d| !d.is_empty()).nth(0) {
                let k = rng.usize(0, ds.len());
                ds.truncate(k);
            }
            "silence-from-point"
        }
    }
}

// ------------------------------------------------------------------------------------------------
// one monitored execution

pub struct Obs {
    pub outcome: Outcome<Result<(), gamedig::GDErrorKind>>,
    pub sends: u64,
    pub delivered: u64,
    pub delivered_bytes: u64,
    pub alloc: AllocStats,
}

impl Obs {
    pub fn class(&self) -> String {
        match &self.outcome {
            Outcome::Returned(Ok(())) => "Ok".into(),
            Outcome::Returned(Err(k)) => kind_name(k).into(),
            Outcome::Panicked(_) => "PANIC".into(),
            Outcome::StepLimit { .. } => "STEP-LIMIT".into(),
        }
    }
    pub fn panic(&self) -> Option<&PanicInfo> {
        match &self.outcome {
            Outcome::Panicked(p) => Some(p),
            _ => None,
        }
    }
}

pub fn execute(ep: &Ep, settings: &Settings, script: &[Vec<Vec<u8>>], step_limit: u64) -> Obs {
    let mut server = ScriptServer::new(script.to_vec());
    server.repeat_last = false;
    let run = run_with(server, step_limit, || call(ep, settings));
    Obs { sends: run.net.n_sends() as u64, delivered: run.net.delivered, delivered_bytes: run.net.delivered_bytes, alloc: run.alloc, outcome: run.outcome }
}

/// request units per entry point: K_EP in `sends <= K_EP * (r + 1) + D` (DESIGN.md Appendix B.2)
pub fn request_units(ep: &Ep) -> u64 {
    match ep {
        Ep::Valve(_) | Ep::ValveGame(_) | Ep::TheShip | Ep::Battalion => 3,
        Ep::Ffow => 1,
        Ep::Gs1 | Ep::Gs1Vars | Ep::Gs2 => 1,
        Ep::Gs3 | Ep::Gs3Vars | Ep::Jc2m => 2,
        Ep::Quake(_) => 1,
        Ep::Unreal2 => 3,
        Ep::McJava => 3,
        Ep::McBedrock | Ep::McLegacySpecific(_) | Ep::Mindustry | Ep::Savage2 => 1,
        Ep::McLegacy => 3,
        Ep::McAuto | Ep::McAutoGame => 7,
        Ep::MasterQuery | Ep::MasterSpecific => 1,
        Ep::Generic(_) => 7,
    }
}

pub fn script_json(s: &[Vec<Vec<u8>>]) -> serde_json::Value {
    serde_json::json!(s.iter().map(|c| c.iter().map(|d| if d.len() > 400 { format!("{}...({} bytes)", crate::core::net::hex(&d[.. 400]), d.len()) } else { crate::core::net::hex(d) }).collect::<Vec<_>>()).collect::<Vec<_>>())
}
