//! C02 — Valve A2S replies are decoded field for field (differential against the server model).

use crate::core::framework::{Check, Cx, Stats, Tier};
use crate::core::monitor::{kind_name, norm_msg, run_with, Outcome, DEFAULT_STEP_LIMIT};
use crate::core::net::hex;
use crate::core::rng::{hash64, Rng};
use crate::models::game_tables::VALVE_GAMES;
use crate::models::valve::{self as vm, A2sServer, Encoding, State};
use gamedig::protocols::types::{GatherToggle, Protocol};
use gamedig::protocols::valve::{self, game, Engine, GatheringSettings};
use serde_json::{json, Value};
use std::net::{IpAddr, Ipv4Addr, SocketAddr};

pub struct C02;

pub fn engine_classes() -> Vec<(&'static str, Engine)> {
    vec![
        ("source-none", Engine::Source(None)),
        ("source-440", Engine::new(440)),
        ("source-dedicated", Engine::new_with_dedicated(736_590, 950_900)),
        ("source-240", Engine::new(240)),
        ("source-2400-ship", Engine::new(2400)),
        ("source-632360-ror2", Engine::new(632_360)),
        ("source-large-id", Engine::new(2_646_460)),
        ("goldsrc", Engine::GoldSrc(false)),
        ("goldsrc-obsolete", Engine::GoldSrc(true)),
    ]
}

pub fn toggles() -> [GatherToggle; 3] { [GatherToggle::Skip, GatherToggle::Try, GatherToggle::Enforce] }

/// pick the encoding for a message so that every datagram fits the client's 6144-byte receive buffer
pub fn choose_encoding(rng: &mut Rng, engine: &Engine, msg_len: usize, allow_compressed: bool) -> Encoding {
    let gold = matches!(engine, Engine::GoldSrc(_));
    let min_frags = (msg_len + 3999) / 4000;
    let want = match rng.below(10) {
        0 ..= 3 => 1,
        4 => 2,
        5 => 3,
        6 => rng.usize(4, 6),
        7 => rng.usize(7, 15),
        _ => rng.usize(2, 5),
    };
    let n = want.max(min_frags).max(if msg_len > 1400 { 2 } else { 1 });
    if n == 1 {
        return Encoding::Single;
    }
    if gold {
        Encoding::GoldSplit(n.min(15))
    } else if allow_compressed && rng.chance(1, 12) {
        Encoding::Compressed(rng.usize(1, 4))
    } else {
        Encoding::SourceSplit(n.min(255))
    }
}

pub fn enc_class(e: Encoding) -> &'static str {
    match e {
        Encoding::Single => "single",
        Encoding::SourceSplit(_) => "source-split",
        Encoding::GoldSplit(_) => "gold-split",
        Encoding::Compressed(_) => "compressed-split",
    }
}

pub fn enc_frags(e: Encoding) -> usize {
    match e {
        Encoding::Single => 1,
        Encoding::SourceSplit(n) | Encoding::GoldSplit(n) | Encoding::Compressed(n) => n,
    }
}

pub struct Built {
    pub state: State,
    pub server: A2sServer,
    pub encs: [Encoding; 3],
    pub no_size_field: bool,
}

/// Build a valid server for `engine` reporting `appid`.
pub fn build(rng: &mut Rng, engine: &Engine, appid: u32, n_players: usize, n_rules: usize, allow_compressed: bool) -> Built {
    // the bzip2 payloads come from a subprocess, which the Miri interpreter cannot spawn
    let allow_compressed = allow_compressed && !cfg!(miri);
    // under the interpreter a state of tens of thousands of rules costs minutes: the big ones stay native
    let (n_players, n_rules) = if cfg!(miri) { (n_players.min(40), n_rules.min(200)) } else { (n_players, n_rules) };
    let gold = matches!(engine, Engine::GoldSrc(_));
    let n_rules = if gold { n_rules.min(2000) } else { n_rules };
    let state = State::gen(rng, engine, appid, n_players, n_rules);
    let msgs = [state.info_message(), state.players_message(), state.rules_message()];
    // the size-field quirk applies to players/rules replies of app 240 servers speaking protocol 7
    let quirk = *engine == Engine::new(240) && state.protocol == 7;
    let mut encs = [Encoding::Single; 3];
    let mut dgrams: Vec<Vec<Vec<u8>>> = Vec::new();
    for (i, m) in msgs.iter().enumerate() {
        // an info reply is small on real servers; still exercise split info sometimes
        let mut e = choose_encoding(rng, engine, m.len(), allow_compressed);
        if i == 0 && rng.chance(2, 3) && m.len() < 1400 {
            e = Encoding::Single;
        }
        let bz = if let Encoding::Compressed(_) = e { vm::bzip2(m) } else { None };
        if matches!(e, Encoding::Compressed(_)) && bz.is_none() {
            e = Encoding::SourceSplit(2.max((m.len() + 3999) / 4000));
        }
        if let (Encoding::Compressed(n), Some(z)) = (e, &bz) {
            e = Encoding::Compressed(n.max((z.len() + 3999) / 4000));
        }
        // gold-split carries at most 15 fragments of < 6144 bytes
        if let Encoding::GoldSplit(n) = e {
            if m.len() > n * 6000 {
                e = Encoding::GoldSplit(15);
            }
        }
        encs[i] = e;
        dgrams.push(vm::encode(rng, m, e, quirk && i > 0, bz.as_deref()));
    }
    let rules_d = dgrams.pop().unwrap();
    let players_d = dgrams.pop().unwrap();
    let info_d = dgrams.pop().unwrap();
    let mut server = A2sServer::new(info_d, players_d, rules_d);
    for s in 0 .. 3 {
        server.rounds[s] = match rng.below(6) {
            0 ..= 2 => 0,
            3 => 1,
            4 => 2,
            _ => 3,
        };
    }
    server.challenges = (0 .. 4).map(|_| [rng.b_u8(), rng.b_u8(), rng.b_u8(), rng.b_u8()]).collect();
    Built { state, server, encs, no_size_field: quirk }
}

pub fn class_count(n: usize) -> &'static str {
    match n {
        0 => "0",
        1 => "1",
        2 => "2",
        3 ..= 64 => "few",
        65 ..= 255 => "many",
        256 ..= 4999 => "hundreds",
        _ => "thousands",
    }
}

pub fn pick_counts(rng: &mut Rng, tier: Tier) -> (usize, usize) {
    let np = match rng.below(10) {
        0 => 0,
        1 => 1,
        2 => 2,
        3 => 64,
        4 => 255,
        _ => rng.usize(0, 24),
    };
    let nr = match rng.below(40) {
        0 => 0,
        1 => 1,
        2 => 2,
        3 => 300,
        4 => tier.pick(2000, 5000),
        5 if tier == Tier::Thorough && rng.chance(1, 10) => 65535,
        _ => rng.usize(0, 40),
    };
    (np, nr)
}

pub fn addr(port: u16) -> SocketAddr { SocketAddr::new(IpAddr::V4(Ipv4Addr::new(10, 1, 2, 3)), port) }

fn project(resp: &valve::Response) -> game::Response { crate::models::valve::project_game(resp) }

fn diff_game(g: &game::Response, e: &game::Response) -> Option<String> {
    macro_rules! f {
        ($($n:ident),*) => { $( if g.$n != e.$n { return Some(format!("game.{}", stringify!($n))); } )* };
    }
    f!(protocol, name, map, game, appid, players_online, players_maximum, players_bots, server_type, has_password, vac_secured, version, port, steam_id, tv_port, tv_name, keywords, rules);
    if g.players_details.len() != e.players_details.len() {
        return Some("game.players_details.len".into());
    }
    for (a, b) in g.players_details.iter().zip(&e.players_details) {
        if a.name != b.name || a.score != b.score || a.duration.to_bits() != b.duration.to_bits() {
            return Some("game.players_details".into());
        }
    }
    None
}

impl C02 {
    fn protocol_case(&self, cx: &mut Cx) {
        let classes = engine_classes();
        let (cname, engine) = classes[(cx.idx % classes.len() as u64) as usize].clone();
        let (np, nr) = pick_counts(&mut cx.rng, cx.tier);
        let appid = match &engine {
            Engine::Source(Some((a, Some(d)))) => {
                if cx.rng.bool() {
                    *a
                } else {
                    *d
                }
            }
            Engine::Source(Some((a, None))) => *a,
            _ => cx.rng.b_u32() & 0xff_ffff,
        };
        let mut b = build(&mut cx.rng, &engine, appid, np, nr, true);
        let gs = GatheringSettings { players: *cx.rng.pick(&toggles()), rules: *cx.rng.pick(&toggles()), check_app_id: cx.rng.chance(3, 4) };
        let retries = cx.rng.below(3) as usize;
        let ts = gamedig::TimeoutSettings::new(None, None, None, retries).ok();
        let rounds = b.server.rounds;
        let encs = b.encs;
        let state = b.state.clone();
        // the documented exception: Risk of Rain 2 drops the rule "Test" (never generated)
        let server = std::mem::replace(&mut b.server, A2sServer::new(vec![], vec![], vec![]));
        let a = addr(27015);
        let run = run_with(server, DEFAULT_STEP_LIMIT, || valve::query(&a, engine, Some(gs), ts));
        cx.eval();
        let expected = state.expected(gs.players != GatherToggle::Skip, gs.rules != GatherToggle::Skip);
        let shape = format!(
            "{cname}|edf={:?}|info={}x{}|players={}x{}|rules={}x{}|rounds={:?}|np={}|nr={}|quirk={}",
            state.edf,
            enc_class(encs[0]),
            enc_frags(encs[0]).min(9),
            enc_class(encs[1]),
            enc_frags(encs[1]).min(9),
            enc_class(encs[2]),
            enc_frags(encs[2]).min(9),
            rounds,
            class_count(np),
            class_count(nr),
            b.no_size_field
        );
        cx.shape(&format!("{cname}|edf={:?}", state.edf));
        cx.shape(&format!("enc|{}|{}|{}", enc_class(encs[0]), enc_class(encs[1]), enc_class(encs[2])));
        let detail = |what: &str| {
            let st = &state;
            json!({
                "what": what, "engine": format!("{engine:?}"), "gather": format!("{gs:?}"), "retries": retries, "shape": shape,
                "info_message": hex(&st.info_message()), "players": st.players.len(), "rules": st.rules.len(),
                "encodings": format!("{encs:?}"), "challenge_rounds": format!("{rounds:?}"),
            })
        };
        let used_enc = |field: &str| -> &'static str {
            if field.starts_with("players") {
                enc_class(encs[1])
            } else if field.starts_with("rules") {
                enc_class(encs[2])
            } else {
                enc_class(encs[0])
            }
        };
        match run.outcome {
            Outcome::Returned(Ok(got)) => {
                cx.count("ok");
                match vm::diff_response(&got, &expected) {
                    None => {
                        cx.nontrivial(hash64(shape.as_bytes()) ^ hash64(&state.info_message()) ^ hash64(&state.players_message()).rotate_left(7));
                        cx.sample(|| json!({"engine": cname, "shape": shape, "result": "equal to expected"}));
                    }
                    Some(field) => {
                        let f = field.split(|c: char| c == '[' || c == ' ').next().unwrap_or("").to_string();
                        let tail = field.rsplit('.').next().unwrap_or("").to_string();
                        let fname = if field.starts_with("players[") { format!("players.{tail}") } else { f };
                        let layout = format!("{:?}", state.layout);
                        cx.violation(format!("C02 wrong-field field={fname} layout={layout} enc={}", used_enc(&field)), || detail(&field));
                    }
                }
            }
            Outcome::Returned(Err(e)) => {
                cx.count(&format!("err-{}", kind_name(&e.kind)));
                // a valid server must be decoded; work out which section failed from the log
                let sends = run.net.sends();
                let last_kind = sends.last().map(|(_, d)| d.get(4).copied().unwrap_or(0)).unwrap_or(0);
                let sec = match last_kind {
                    0x54 => 0,
                    0x55 => 1,
                    _ => 2,
                };
                let layout = format!("{:?}", state.layout);
                let perr = run.server.borrow().protocol_errors.clone();
                cx.violation(format!("C02 valid-reply-rejected kind={} section={} layout={layout} enc={}", kind_name(&e.kind), ["info", "players", "rules"][sec], enc_class(encs[sec])), || {
                    let mut d = detail("query failed on a specification-conforming server");
                    d["error"] = json!(format!("{:?}", e.kind));
                    d["server_protocol_errors"] = json!(perr);
                    d
                });
            }
            Outcome::Panicked(p) => cx.violation(format!("C02 panic at {} msg=\"{}\"", p.loc, norm_msg(&p.msg)), || detail(&p.msg)),
            Outcome::StepLimit { .. } => cx.violation("C02 step-limit", || detail("step limit")),
        }
    }

    fn game_case(&self, cx: &mut Cx) {
        // a game module from the repository, with the engine its definition names
        let games: Vec<(&str, &gamedig::Game)> = gamedig::GAMES.entries().filter(|(_, g)| matches!(g.protocol, Protocol::Valve(_))).map(|(k, g)| (*k, g)).collect();
        let (gid, g) = games[cx.rng.below(games.len() as u64) as usize];
        let engine = match &g.protocol {
            Protocol::Valve(e) => *e,
            _ => unreachable!(),
        };
        let Some((mname, _, f)) = VALVE_GAMES.iter().find(|(_, pretty, _)| pretty.eq_ignore_ascii_case(g.name)) else {
            cx.observe("valve definition without a module of the same name");
            return;
        };
        let appid = match &engine {
            Engine::Source(Some((a, _))) => *a,
            _ => 0,
        };
        let (np, nr) = pick_counts(&mut cx.rng, Tier::Quick);
        let mut b = build(&mut cx.rng, &engine, appid, np.min(64), nr.min(300), false);
        let state = b.state.clone();
        let server = std::mem::replace(&mut b.server, A2sServer::new(vec![], vec![], vec![]));
        let port = if cx.rng.bool() { Some(cx.rng.range(1, 65535) as u16) } else { None };
        let ip = IpAddr::V4(Ipv4Addr::new(10, 9, 8, 7));
        let run = run_with(server, DEFAULT_STEP_LIMIT, || f(&ip, port));
        cx.eval();
        let asked_players = run.net.sends().iter().any(|(_, d)| d.get(4) == Some(&0x55));
        let asked_rules = run.net.sends().iter().any(|(_, d)| d.get(4) == Some(&0x56));
        let expected = project(&state.expected(asked_players, asked_rules));
        match run.outcome {
            Outcome::Returned(Ok(got)) => match diff_game(&got, &expected) {
                None => {
                    cx.count("game-ok");
                    cx.nontrivial(hash64(gid.as_bytes()) ^ hash64(&state.info_message()));
                    cx.shape(&format!("game|{mname}"));
                }
                Some(field) => cx.violation(format!("C02 game-wrapper wrong-field field={field}"), || json!({"game": gid, "module": mname, "field": field, "info_message": hex(&state.info_message())})),
            },
            Outcome::Returned(Err(e)) => {
                // the module may use other ids than the definition (C14's business): only a BadGame caused by that is tolerated here
                if e.kind == gamedig::GDErrorKind::BadGame {
                    cx.observe("game module rejected the definition's app id (see C14)");
                } else {
                    cx.violation(format!("C02 game-wrapper valid-reply-rejected kind={}", kind_name(&e.kind)), || json!({"game": gid, "module": mname, "error": format!("{:?}", e.kind)}));
                }
            }
            Outcome::Panicked(p) => cx.violation(format!("C02 panic at {} msg=\"{}\"", p.loc, norm_msg(&p.msg)), || json!({"game": gid, "panic": p.msg})),
            Outcome::StepLimit { .. } => cx.violation("C02 step-limit", || json!({"game": gid})),
        }
    }
}

impl Check for C02 {
    fn id(&self) -> &'static str { "C02" }
    fn memcheck_plan(&self, tier: Tier) -> Option<(crate::core::framework::MemMode, Vec<(u64, u64)>)> {
        if tier != Tier::Thorough {
            return None;
        }
        let total = self.total_cases(tier);
        let n = 600u64.min(total / 16);
        Some((crate::core::framework::MemMode::Harness, (0 .. 16).map(|i| (i * (total / 16), n)).collect()))
    }
    fn miri_plan(&self, tier: Tier) -> Option<Vec<(u64, u64)>> {
        if tier != Tier::Thorough {
            return None;
        }
        Some((0 .. 16).map(|i| (i * 20, 20)).collect())
    }
    fn rule(&self) -> String {
        "random A2S server states (boundary-biased numerics, string classes, all 32 EDF masks, 9 engine classes, both info layouts, The Ship fields) encoded by an independent server model as single / Source split / GoldSrc split / bzip2 split datagrams with 0-3 challenge rounds per section; valve::query and the repository's per-game modules must return the model's expected response field for field. non-trivial = the query returned Ok and equalled the expectation; distinct by (shape, state)".into()
    }
    fn assumptions(&self) -> Vec<String> {
        vec![
            "model written from the Valve Server Queries page as reproduced in DESIGN.md Appendix A.1".into(),
            "domain: UTF-8 strings without NUL; unique rule keys; rule key 'Test' never generated; GoldSrc address non-empty".into(),
            "Q1/Q2 of Appendix A (obsolete mod block NUL, The Ship per-player extras) follow the implementation's layout".into(),
            "bzip2 payloads produced by /usr/bin/bzip2; size/CRC pair only in fragment 0 as the specification prescribes".into(),
        ]
    }
    fn total_cases(&self, tier: Tier) -> u64 { tier.pick(120_000, 1_500_000) }
    fn run_case(&mut self, cx: &mut Cx) {
        if cx.idx % 8 == 7 {
            self.game_case(cx)
        } else {
            self.protocol_case(cx)
        }
    }
    fn sufficient(&self, _tier: Tier, m: &Stats) -> Result<(), String> {
        let masks = m.shapes.keys().filter(|k| k.contains("|edf=")).count();
        if masks < 60 {
            return Err(format!("only {masks} (engine class, EDF mask) combinations seen"));
        }
        Ok(())
    }
    fn extra_coverage(&self, _tier: Tier, m: &Stats) -> Value {
        json!({
            "engine_class_x_edf_mask_seen": m.shapes.keys().filter(|k| k.contains("|edf=")).count(),
            "encoding_triples_seen": m.shapes.keys().filter(|k| k.starts_with("enc|")).count(),
            "game_modules_exercised": m.shapes.keys().filter(|k| k.starts_with("game|")).count(),
        })
    }
}
