//! C17 — packet reader and wire codecs vs a reference model.

use crate::core::framework::{Check, Cx, Stats, Tier};
use crate::core::monitor::{guarded, norm_msg, Outcome};
use crate::core::rng::{hash64, Rng};
use byteorder::{BigEndian, ByteOrder, LittleEndian};
use gamedig::protocols::unreal2::Unreal2StringDecoder;
use gamedig::verif_hook::minecraft_codec as mc;
use gamedig::verif_hook::{error_by_expected_size, u8_lower_upper, Buffer, SwitchEndian, Utf16Decoder, Utf8Decoder, Utf8LengthPrefixedDecoder};
use serde_json::{json, Value};

pub const ALPHABET: [u8; 6] = [0x00, 0x01, 0x05, 0x41, 0x80, 0xff];

#[derive(Debug, Clone, Copy, PartialEq, Eq)]
pub enum Op {
    U8,
    I8,
    U16,
    I16,
    U32,
    I32,
    U64,
    I64,
    F32,
    F64,
    Move(isize),
    Utf8(Option<u8>),
    Utf8Len(Option<u8>),
    Utf16Le(Option<[u8; 2]>),
    Utf16Be(Option<[u8; 2]>),
    Unreal2,
    Switch(usize),
    Remaining,
    RemainingBytes,
}

pub fn all_ops() -> Vec<Op> {
    let mut v = vec![Op::U8, Op::I8, Op::U16, Op::I16, Op::U32, Op::I32, Op::U64, Op::I64, Op::F32, Op::F64];
    for k in [-7isize, -3, -2, -1, 0, 1, 2, 3, 4, 6, 7, isize::MIN, isize::MAX, isize::MAX - 1, isize::MIN + 1] {
        v.push(Op::Move(k));
    }
    v.extend([Op::Utf8(None), Op::Utf8(Some(0x41)), Op::Utf8(Some(0xff)), Op::Utf8(Some(0x0a))]);
    v.extend([Op::Utf8Len(None), Op::Utf8Len(Some(0x41))]);
    v.extend([Op::Utf16Le(None), Op::Utf16Le(Some([0x41, 0x00])), Op::Utf16Be(None), Op::Utf16Be(Some([0x00, 0x41]))]);
    v.push(Op::Unreal2);
    for k in [0usize, 1, 2, 3, 6, 7, 64] {
        v.push(Op::Switch(k));
    }
    v.extend([Op::Remaining, Op::RemainingBytes]);
    v
}

#[derive(Debug, Clone, PartialEq)]
pub enum Res {
    Num(u64),
    Str(String),
    Unit,
    Len(usize),
    Bytes(Vec<u8>),
    /// switch_endian_chunk: (length of chunk, its bytes read back one by one)
    Chunk(usize, Vec<u8>),
    Err,
}

fn apply<B: ByteOrder + SwitchEndian>(buf: &mut Buffer<B>, op: Op) -> Res {
    macro_rules! num {
        ($t:ty, $conv:expr) => {
            match buf.read::<$t>() {
                Ok(v) => Res::Num($conv(v)),
                Err(_) => Res::Err,
            }
        };
    }
    match op {
        Op::U8 => num!(u8, |v: u8| v as u64),
        Op::I8 => num!(i8, |v: i8| v as u8 as u64),
        Op::U16 => num!(u16, |v: u16| v as u64),
        Op::I16 => num!(i16, |v: i16| v as u16 as u64),
        Op::U32 => num!(u32, |v: u32| v as u64),
        Op::I32 => num!(i32, |v: i32| v as u32 as u64),
        Op::U64 => num!(u64, |v: u64| v),
        Op::I64 => num!(i64, |v: i64| v as u64),
        Op::F32 => num!(f32, |v: f32| v.to_bits() as u64),
        Op::F64 => num!(f64, |v: f64| v.to_bits()),
        Op::Move(k) => match buf.move_cursor(k) {
            Ok(()) => Res::Unit,
            Err(_) => Res::Err,
        },
        Op::Utf8(d) => buf.read_string::<Utf8Decoder>(d.map(|x| [x])).map(Res::Str).unwrap_or(Res::Err),
        Op::Utf8Len(d) => buf.read_string::<Utf8LengthPrefixedDecoder>(d.map(|x| [x])).map(Res::Str).unwrap_or(Res::Err),
        Op::Utf16Le(d) => buf.read_string::<Utf16Decoder<LittleEndian>>(d).map(Res::Str).unwrap_or(Res::Err),
        Op::Utf16Be(d) => buf.read_string::<Utf16Decoder<BigEndian>>(d).map(Res::Str).unwrap_or(Res::Err),
        Op::Unreal2 => buf.read_string::<Unreal2StringDecoder>(None).map(Res::Str).unwrap_or(Res::Err),
        Op::Switch(k) => match buf.switch_endian_chunk(k) {
            Ok(mut chunk) => {
                let n = chunk.data_length();
                let mut bytes = Vec::new();
                while let Ok(b) = chunk.read::<u8>() {
                    bytes.push(b);
                    if bytes.len() > 64 {
                        break;
                    }
                }
                Res::Chunk(n, bytes)
            }
            Err(_) => Res::Err,
        },
        Op::Remaining => Res::Len(buf.remaining_length()),
        Op::RemainingBytes => Res::Bytes(buf.remaining_bytes().to_vec()),
    }
}

/// What the reference model allows for one operation at one position.
#[derive(Debug, Clone, PartialEq)]
pub enum Expect {
    /// exactly this result and this new position
    Exactly(Res, usize),
    /// must fail (Err), position unchanged
    Fail,
    /// must fail or succeed with this result (format leaves it open); position must stay within the packet
    FailOr(Res, usize),
    /// ambiguous for the specification: only "no panic, position within packet" is asserted
    Open(&'static str),
}

fn num_expect(data: &[u8], pos: usize, w: usize, be: bool, signed_f: u8) -> Expect {
    let _ = signed_f;
    if pos + w > data.len() {
        return Expect::Fail;
    }
    let b = &data[pos .. pos + w];
    let mut v: u64 = 0;
    if be {
        for x in b {
            v = (v << 8) | *x as u64;
        }
    } else {
        for x in b.iter().rev() {
            v = (v << 8) | *x as u64;
        }
    }
    Expect::Exactly(Res::Num(v), pos + w)
}

fn strip_unreal(s: &str) -> String {
    // colour escape: ESC + 3 characters; then control characters 01..=1a removed
    let mut out = String::new();
    let mut skip = 0;
    for c in s.chars() {
        if c == '\u{1b}' {
            skip = 3;
            continue;
        }
        if skip > 0 {
            skip -= 1;
            continue;
        }
        if c > '\0' && c <= '\u{1a}' {
            continue;
        }
        out.push(c);
    }
    out.trim_matches('\0').to_string()
}

pub fn model(data: &[u8], pos: usize, op: Op, be: bool) -> Expect {
    let len = data.len();
    let rest = &data[pos ..];
    match op {
        Op::U8 | Op::I8 => num_expect(data, pos, 1, be, 0),
        Op::U16 | Op::I16 => num_expect(data, pos, 2, be, 0),
        Op::U32 | Op::I32 | Op::F32 => num_expect(data, pos, 4, be, 0),
        Op::U64 | Op::I64 | Op::F64 => num_expect(data, pos, 8, be, 0),
        Op::Move(k) => {
            let np = (pos as i128) + (k as i128);
            if np >= 0 && np <= len as i128 {
                Expect::Exactly(Res::Unit, np as usize)
            } else {
                Expect::Fail
            }
        }
        Op::Utf8(d) => {
            let d = d.unwrap_or(0);
            let (s, np) = match rest.iter().position(|b| *b == d) {
                Some(i) => (&rest[.. i], pos + i + 1),
                None => (rest, len),
            };
            match std::str::from_utf8(s) {
                Ok(t) => Expect::Exactly(Res::Str(t.to_string()), np),
                Err(_) => Expect::Fail,
            }
        }
        Op::Utf8Len(d) => {
            let d = d.unwrap_or(0);
            if rest.is_empty() {
                return Expect::Fail;
            }
            let l = rest[0] as usize;
            if 1 + l > rest.len() {
                // the declared length runs past the packet
                if rest[1 ..].contains(&d) {
                    return Expect::Open("length-prefixed string containing the delimiter byte");
                }
                return Expect::Fail;
            }
            let body = &rest[1 .. 1 + l];
            if body.contains(&d) {
                return Expect::Open("length-prefixed string containing the delimiter byte");
            }
            match std::str::from_utf8(body) {
                Ok(t) => Expect::Exactly(Res::Str(t.to_string()), pos + 1 + l),
                Err(_) => Expect::Fail,
            }
        }
        Op::Utf16Le(d) | Op::Utf16Be(d) => {
            let big = matches!(op, Op::Utf16Be(_));
            let d = d.unwrap_or([0, 0]);
            let found = rest.chunks_exact(2).position(|c| c == d);
            let (body, np, odd) = match found {
                Some(i) => (&rest[.. 2 * i], pos + 2 * i + 2, false),
                None => (&rest[.. rest.len() & !1], len, rest.len() % 2 == 1),
            };
            let units: Vec<u16> = body.chunks_exact(2).map(|c| if big { u16::from_be_bytes([c[0], c[1]]) } else { u16::from_le_bytes([c[0], c[1]]) }).collect();
            let dec: Result<String, _> = char::decode_utf16(units.iter().copied()).collect();
            match dec {
                Ok(t) => {
                    if odd {
                        // an unterminated string with a dangling byte: the reader may reject it or take the whole units
                        Expect::FailOr(Res::Str(t), np)
                    } else {
                        Expect::Exactly(Res::Str(t), np)
                    }
                }
                Err(_) => Expect::Fail,
            }
        }
        Op::Unreal2 => {
            if rest.is_empty() {
                return Expect::Fail;
            }
            let l = rest[0] as usize;
            if l < 0x80 {
                if l == 0 {
                    return Expect::Exactly(Res::Str(String::new()), pos + 1);
                }
                if 1 + l > rest.len() {
                    return Expect::Open("unreal2 latin-1 string longer than the packet");
                }
                let body = &rest[1 .. 1 + l];
                // the Latin-1 form is NUL-delimited: a NUL before the declared end ends the string there
                let (body, l) = match body.iter().position(|b| *b == 0) {
                    Some(z) => (&body[..= z], z + 1),
                    None => return Expect::Open("unreal2 latin-1 string without a NUL inside its declared length"),
                };
                if body.iter().any(|b| (0x80 ..= 0x9f).contains(b)) {
                    return Expect::Open("unreal2 latin-1 bytes 80-9f (windows-1252 vs latin-1)");
                }
                let text: String = body[.. l - 1].iter().map(|b| *b as char).collect();
                if text.contains('\u{1b}') && {
                    // truncated colour escape at the end
                    let cs: Vec<char> = text.chars().collect();
                    cs.iter().enumerate().any(|(i, c)| *c == '\u{1b}' && i + 3 >= cs.len())
                } {
                    return Expect::Open("unreal2 truncated colour escape");
                }
                Expect::Exactly(Res::Str(strip_unreal(&text)), pos + 1 + l)
            } else {
                let n = l & 0x7f;
                // the reader documents: "some unreal 2 games randomly insert an extra 0x01 here, not included in the
                // length. Skip it if present". That rule decides the packets in which the data still fits after the
                // skipped byte; an empty string followed by 01 and a string that only fits if the 01 is data stay open.
                let mut skip = 0;
                if rest.len() > 1 && rest[1] == 1 {
                    if n == 0 || 2 + 2 * n > rest.len() {
                        return Expect::Open("unreal2 UCS-2 string preceded by a 01 byte (empty, or fitting only without the skip)");
                    }
                    skip = 1;
                }
                if 1 + 2 * n > rest.len() {
                    return Expect::Fail;
                }
                let body = &rest[1 + skip .. 1 + skip + 2 * n];
                let units: Vec<u16> = body.chunks_exact(2).map(|c| u16::from_le_bytes([c[0], c[1]])).collect();
                let dec: Result<String, _> = char::decode_utf16(units.iter().copied()).collect();
                match dec {
                    Ok(t) => {
                        let cs: Vec<char> = t.chars().collect();
                        if cs.iter().enumerate().any(|(i, c)| *c == '\u{1b}' && i + 3 >= cs.len()) {
                            return Expect::Open("unreal2 truncated colour escape");
                        }
                        Expect::Exactly(Res::Str(strip_unreal(&t)), pos + 1 + skip + 2 * n)
                    }
                    Err(_) => Expect::Fail,
                }
            }
        }
        Op::Switch(k) => {
            if k <= len - pos {
                let chunk = &data[pos .. pos + k];
                let mut bytes = chunk.to_vec();
                bytes.truncate(65);
                Expect::Exactly(Res::Chunk(k, bytes), pos + k)
            } else {
                Expect::Fail
            }
        }
        Op::Remaining => Expect::Exactly(Res::Len(len - pos), pos),
        Op::RemainingBytes => Expect::Exactly(Res::Bytes(rest.to_vec()), pos),
    }
}

fn res_json(r: &Res) -> Value {
    match r {
        Res::Num(v) => json!({"num": v}),
        Res::Str(s) => json!({"str": s}),
        Res::Unit => json!("unit"),
        Res::Len(n) => json!({"len": n}),
        Res::Bytes(b) => json!({"bytes": crate::core::net::hex(b)}),
        Res::Chunk(n, b) => json!({"chunk_len": n, "chunk": crate::core::net::hex(b)}),
        Res::Err => json!("Err"),
    }
}

/// Run one op on a fresh reader positioned at `pos`; report disagreement with the model.
/// Returns the new position if the real reader is still usable.
fn step<B: ByteOrder + SwitchEndian>(cx: &mut Cx, data: &[u8], buf: &mut Buffer<B>, op: Op, be: bool, progressed: &mut bool) -> bool {
    let pos = buf.current_position();
    let expect = model(data, pos, op, be);
    let (out, _a) = guarded(|| {
        let r = apply(buf, op);
        (r, buf.current_position())
    });
    cx.eval();
    let border = if be { "BE" } else { "LE" };
    match out {
        Outcome::Panicked(p) => {
            cx.violation(format!("C17 panic op={} at {} msg=\"{}\"", op_name(op), p.loc, norm_msg(&p.msg)), || {
                json!({"packet": crate::core::net::hex(data), "pos": pos, "op": format!("{op:?}"), "order": border, "panic": p.msg, "loc": p.loc, "expected": format!("{expect:?}")})
            });
            false
        }
        Outcome::StepLimit { .. } => false,
        Outcome::Returned((r, npos)) => {
            if npos > data.len() {
                cx.violation(format!("C17 position-out-of-packet op={}", op_name(op)), || {
                    json!({"packet": crate::core::net::hex(data), "pos": pos, "op": format!("{op:?}"), "order": border, "new_pos": npos, "len": data.len(), "result": res_json(&r)})
                });
                return false;
            }
            let ok = match &expect {
                Expect::Exactly(er, ep) => &r == er && npos == *ep,
                Expect::Fail => r == Res::Err && npos == pos,
                Expect::FailOr(er, ep) => (r == Res::Err) || (&r == er && npos == *ep),
                Expect::Open(why) => {
                    cx.observe(why);
                    true
                }
            };
            if !ok {
                let what = match (&expect, &r) {
                    (Expect::Fail, Res::Err) => "position-moved-on-failure",
                    (Expect::Fail, _) => "accepted-what-must-fail",
                    (_, Res::Err) => "rejected-what-must-succeed",
                    (Expect::Exactly(er, _), rr) if er == rr => "wrong-advance",
                    _ => "wrong-value",
                };
                cx.violation(format!("C17 reader-mismatch op={} {}", op_name(op), what), || {
                    json!({"packet": crate::core::net::hex(data), "pos": pos, "op": format!("{op:?}"), "order": border, "result": res_json(&r), "new_pos": npos, "expected": format!("{expect:?}")})
                });
            }
            if r != Res::Err && npos != pos {
                *progressed = true;
            }
            true
        }
    }
}

fn op_name(op: Op) -> String {
    match op {
        Op::Move(_) => "move_cursor".into(),
        Op::Utf8(_) => "utf8".into(),
        Op::Utf8Len(_) => "utf8_length_prefixed".into(),
        Op::Utf16Le(_) => "utf16le".into(),
        Op::Utf16Be(_) => "utf16be".into(),
        Op::Switch(_) => "switch_endian_chunk".into(),
        o => format!("{o:?}").to_lowercase(),
    }
}

/// closure over all positions x all ops, both byte orders
pub fn closure(cx: &mut Cx, data: &[u8], ops: &[Op]) {
    // the packet sits in the middle of a larger allocation; results must not depend on the surroundings
    let mut progressed = false;
    for pad in [0x00u8, 0xa5] {
        let mut big = vec![pad; 16];
        big.extend_from_slice(data);
        big.extend(std::iter::repeat(pad).take(16));
        let pkt = &big[16 .. 16 + data.len()];
        for pos in 0 ..= data.len() {
            for op in ops {
                let mut le = Buffer::<LittleEndian>::new(pkt);
                if le.move_cursor(pos as isize).is_ok() {
                    step(cx, data, &mut le, *op, false, &mut progressed);
                }
                let mut be = Buffer::<BigEndian>::new(pkt);
                if be.move_cursor(pos as isize).is_ok() {
                    step(cx, data, &mut be, *op, true, &mut progressed);
                }
            }
        }
        if cx.tier == Tier::Quick && data.len() > 4 {
            break; // quick: surroundings varied only for the short packets
        }
    }
    if progressed {
        cx.nontrivial(hash64(data));
    }
}

fn random_sequence(cx: &mut Cx, data: &[u8], ops: &[Op], depth: usize) {
    let be = cx.rng.bool();
    let mut progressed = false;
    let mut seq = Vec::new();
    if be {
        let mut b = Buffer::<BigEndian>::new(data);
        for _ in 0 .. depth {
            let op = *cx.rng.pick(ops);
            seq.push(op);
            if !step(cx, data, &mut b, op, true, &mut progressed) {
                break;
            }
        }
    } else {
        let mut b = Buffer::<LittleEndian>::new(data);
        for _ in 0 .. depth {
            let op = *cx.rng.pick(ops);
            seq.push(op);
            if !step(cx, data, &mut b, op, false, &mut progressed) {
                break;
            }
        }
    }
    if progressed {
        let mut h = data.to_vec();
        h.extend(format!("{seq:?}").bytes());
        cx.nontrivial(hash64(&h));
    }
}

// ---------------------------------------------------------------------------------------------
// codecs

fn ref_varint(v: i32) -> Vec<u8> {
    let mut x = v as u32;
    let mut out = Vec::new();
    loop {
        let b = (x & 0x7f) as u8;
        x >>= 7;
        if x == 0 {
            out.push(b);
            return out;
        }
        out.push(b | 0x80);
    }
}

/// Reference decode: Ok((value, consumed)) | Err
fn ref_varint_decode(bytes: &[u8]) -> Result<(i32, usize), &'static str> {
    let mut v: u32 = 0;
    for i in 0 .. 5 {
        let b = *bytes.get(i).ok_or("truncated")?;
        if i == 4 && (b & 0xf0) != 0 {
            return Err("overlong");
        }
        v |= ((b & 0x7f) as u32) << (7 * i);
        if b & 0x80 == 0 {
            return Ok((v as i32, i + 1));
        }
    }
    Err("overlong")
}

fn varint_roundtrip(cx: &mut Cx, v: i32) {
    let enc = mc::as_varint(v);
    let r = ref_varint(v);
    if enc != r {
        cx.violation("C17 varint-encode-differs-from-spec", || json!({"value": v, "got": crate::core::net::hex(&enc), "spec": crate::core::net::hex(&r)}));
        return;
    }
    let mut b = Buffer::<BigEndian>::new(&enc);
    match mc::get_varint(&mut b) {
        Ok(d) if d == v && b.remaining_length() == 0 => {}
        other => {
            let pos = b.current_position();
            cx.violation("C17 varint-roundtrip", || json!({"value": v, "encoded": crate::core::net::hex(&enc), "decoded": format!("{other:?}"), "pos": pos}));
        }
    }
}

fn varint_decode_case(cx: &mut Cx, bytes: &[u8]) {
    let (out, _) = guarded(|| {
        let mut b = Buffer::<LittleEndian>::new(bytes);
        let r = mc::get_varint(&mut b);
        (r.ok(), b.current_position())
    });
    cx.eval();
    let exp = ref_varint_decode(bytes);
    match out {
        Outcome::Returned((got, pos)) => {
            match (exp, got) {
                (Ok((v, n)), Some(g)) => {
                    if g != v || pos != n {
                        cx.violation("C17 varint-decode-wrong", || json!({"bytes": crate::core::net::hex(bytes), "got": g, "pos": pos, "expected": v, "expected_consumed": n}));
                    }
                    if n > 1 && bytes[n - 1] == 0 {
                        cx.observe("varint padded (non-minimal) encoding accepted");
                    }
                }
                (Ok((v, _)), None) => cx.violation("C17 varint-decode-rejects-valid", || json!({"bytes": crate::core::net::hex(bytes), "expected": v})),
                (Err(why), Some(g)) => cx.violation(format!("C17 varint-decode-accepts-{why}"), || json!({"bytes": crate::core::net::hex(bytes), "got": g})),
                (Err(_), None) => {}
            }
            if pos > bytes.len() {
                cx.violation("C17 varint-position-out-of-packet", || json!({"bytes": crate::core::net::hex(bytes), "pos": pos}));
            }
        }
        Outcome::Panicked(p) => cx.violation(format!("C17 panic op=get_varint at {}", p.loc), || json!({"bytes": crate::core::net::hex(bytes), "panic": p.msg})),
        Outcome::StepLimit { .. } => {}
    }
    cx.nontrivial(hash64(bytes));
}

fn string_codec_case(cx: &mut Cx, s: &str) {
    cx.eval();
    let (out, _) = guarded(|| {
        let enc = mc::as_string(s)?;
        let mut b = Buffer::<LittleEndian>::new(&enc);
        let d = mc::get_string(&mut b)?;
        Ok::<_, gamedig::GDError>((enc.clone(), d, b.remaining_length()))
    });
    match out {
        Outcome::Returned(Ok((enc, d, rem))) => {
            let mut exp = ref_varint(s.len() as i32);
            exp.extend(s.as_bytes());
            if enc != exp {
                cx.violation("C17 string-encode-differs-from-spec", || json!({"len": s.len(), "got_prefix": crate::core::net::hex(&enc[.. enc.len().min(8)])}));
            }
            if d != s || rem != 0 {
                cx.violation("C17 string-roundtrip", || json!({"len": s.len(), "remaining": rem, "decoded_len": d.len()}));
            }
        }
        Outcome::Returned(Err(e)) => cx.violation("C17 string-roundtrip-error", || json!({"len": s.len(), "err": format!("{:?}", e.kind)})),
        Outcome::Panicked(p) => cx.violation(format!("C17 panic op=string-codec at {}", p.loc), || json!({"len": s.len(), "panic": p.msg})),
        Outcome::StepLimit { .. } => {}
    }
    cx.nontrivial(hash64(s.as_bytes()));
}

/// hostile string decode: declared length vs available bytes
fn string_decode_hostile(cx: &mut Cx, bytes: &[u8]) {
    cx.eval();
    let (out, a) = guarded(|| {
        let mut b = Buffer::<LittleEndian>::new(bytes);
        let r = mc::get_string(&mut b);
        (r.ok(), b.current_position())
    });
    let exp: Option<(String, usize)> = match ref_varint_decode(bytes) {
        Ok((l, n)) if l >= 0 && n + l as usize <= bytes.len() => std::str::from_utf8(&bytes[n .. n + l as usize]).ok().map(|s| (s.to_string(), n + l as usize)),
        _ => None,
    };
    match out {
        Outcome::Returned((got, pos)) => {
            if pos > bytes.len() {
                cx.violation("C17 get_string-position-out-of-packet", || json!({"bytes": crate::core::net::hex(&bytes[.. bytes.len().min(24)]), "pos": pos}));
            }
            match (exp, got) {
                (Some((s, p)), Some(g)) => {
                    if s != g || p != pos {
                        cx.violation("C17 get_string-wrong", || json!({"bytes": crate::core::net::hex(&bytes[.. bytes.len().min(24)])}));
                    }
                }
                (Some(_), None) => cx.violation("C17 get_string-rejects-valid", || json!({"bytes": crate::core::net::hex(&bytes[.. bytes.len().min(24)])})),
                (None, Some(g)) => cx.violation("C17 get_string-accepts-invalid", || json!({"bytes": crate::core::net::hex(&bytes[.. bytes.len().min(24)]), "got_len": g.len()})),
                (None, None) => {}
            }
            if a.largest > (16 << 20) {
                cx.violation("C17 get_string-reserves-declared-length", || json!({"bytes": crate::core::net::hex(&bytes[.. bytes.len().min(24)]), "largest_request": a.largest}));
            }
        }
        Outcome::Panicked(p) => cx.violation(format!("C17 panic op=get_string at {} msg=\"{}\"", p.loc, norm_msg(&p.msg)), || json!({"bytes": crate::core::net::hex(&bytes[.. bytes.len().min(24)]), "panic": p.msg})),
        Outcome::StepLimit { .. } => {}
    }
    cx.nontrivial(hash64(bytes));
}

// ---------------------------------------------------------------------------------------------

pub struct C17 {
    ops: Vec<Op>,
}

impl C17 {
    pub fn new() -> Self { Self { ops: all_ops() } }
}

/// number of packets of length <= 6 over the alphabet
const N_SMALL: u64 = 1 + 6 + 36 + 216 + 1296 + 7776 + 46656;

pub fn small_packet(mut i: u64) -> Vec<u8> {
    let mut len = 0;
    let mut count = 1u64;
    while i >= count {
        i -= count;
        len += 1;
        count *= 6;
    }
    let mut v = Vec::with_capacity(len);
    for _ in 0 .. len {
        v.push(ALPHABET[(i % 6) as usize]);
        i /= 6;
    }
    v
}

const VARINT_BLOCKS_QUICK: u64 = 256; // x 65536 values
const VARINT_BLOCKS_THOROUGH: u64 = 65536; // x 65536 = 2^32

impl C17 {
    fn n_random(&self, tier: Tier) -> u64 { tier.pick(60_000, 1_500_000) }
    fn n_varint_blocks(&self, tier: Tier) -> u64 { tier.pick(VARINT_BLOCKS_QUICK, VARINT_BLOCKS_THOROUGH) }
    fn n_decode(&self, _tier: Tier) -> u64 { 11u64.pow(5) / 64 + 1 }
    fn n_strings(&self, tier: Tier) -> u64 { tier.pick(3_000, 60_000) }
}

const DEC_ALPHA: [u8; 11] = [0x00, 0x01, 0x07, 0x08, 0x0f, 0x10, 0x7f, 0x80, 0x81, 0x8f, 0xff];

impl Check for C17 {
    fn id(&self) -> &'static str { "C17" }
    fn miri_plan(&self, tier: Tier) -> Option<Vec<(u64, u64)>> {
        if tier != Tier::Thorough {
            return None;
        }
        Some({
            // every packet of <= 3 bytes (259) in 13 shards, plus three blocks of 4-byte packets
            let mut v: Vec<(u64, u64)> = (0 .. 13).map(|i| (i * 20, 20)).collect();
            v.extend([(259, 48), (700, 48), (1200, 48)]);
            v
        })
    }

    fn rule(&self) -> String {
        "reader: every packet of <=6 bytes over {00,01,05,41,80,ff} (55 987 packets) x every position x 53 operations x both byte orders against a reference model (closure over positions = operation sequences of every depth), plus random longer packets with operation sequences of depth <=12; non-trivial = some operation succeeded and moved the position; distinct by packet (+sequence). codecs: VarInt round trip over blocks of the 32-bit integers, all <=5-byte strings over an 11-symbol VarInt alphabet against a reference decoder, string codec round trips and hostile length prefixes".into()
    }

    fn assumptions(&self) -> Vec<String> {
        vec![
            "reference model written from the property statement; std from_le_bytes/from_be_bytes, str::from_utf8 and char::decode_utf16 are trusted".into(),
            "length-prefixed strings containing the delimiter byte, Unreal 2 strings whose NUL is not the last byte, Latin-1 bytes 80-9f, a 01 byte before a UCS-2 string and truncated colour escapes are observe-only (format leaves them open)".into(),
            "non-minimal (zero-padded) VarInt encodings are observe-only; 'over-long' = more than 5 bytes or more than 32 payload bits".into(),
        ]
    }

    fn total_cases(&self, tier: Tier) -> u64 { N_SMALL + self.n_random(tier) + self.n_varint_blocks(tier) + self.n_decode(tier) + self.n_strings(tier) + 1 }

    fn exhaustive(&self, tier: Tier) -> Option<bool> { Some(tier == Tier::Thorough) }

    fn case_label(&self, tier: Tier, idx: u64) -> String {
        let a = N_SMALL;
        let b = a + self.n_random(tier);
        let c = b + self.n_varint_blocks(tier);
        let d = c + self.n_decode(tier);
        if idx < a {
            "reader-closure".into()
        } else if idx < b {
            "reader-random".into()
        } else if idx < c {
            "varint-roundtrip".into()
        } else if idx < d {
            "varint-decode".into()
        } else {
            "string-codec".into()
        }
    }

    fn run_case(&mut self, cx: &mut Cx) {
        let tier = cx.tier;
        let mut idx = cx.idx;
        if idx < N_SMALL {
            let p = small_packet(idx);
            cx.count("reader_closure_packets");
            if idx % 9973 == 5 {
                let h = crate::core::net::hex(&p);
                cx.sample(|| json!({"kind":"reader closure","packet": h, "positions": p.len() + 1, "ops": 53, "orders": 2}));
            }
            let ops = self.ops.clone();
            closure(cx, &p, &ops);
            return;
        }
        idx -= N_SMALL;
        if idx < self.n_random(tier) {
            cx.count("reader_random_sequences");
            let n = match cx.rng.below(4) {
                0 => cx.rng.usize(7, 16),
                1 => cx.rng.usize(17, 64),
                2 => cx.rng.usize(65, 300),
                _ => cx.rng.usize(0, 12),
            };
            let class = cx.rng.below(4);
            let data: Vec<u8> = match class {
                3 => {
                    // a length-prefixed, NUL-terminated string whose length byte and terminators disagree: NULs before
                    // the declared end, and a NUL exactly at (or next to) the declared end
                    let m = cx.rng.usize(3, 40);
                    let l = cx.rng.usize(1, m - 1);
                    let mut body: Vec<u8> = (0 .. m).map(|_| if cx.rng.chance(1, 6) { 0 } else { cx.rng.range(0x20, 0x7e) as u8 }).collect();
                    match cx.rng.below(3) {
                        0 => body[l] = 0,
                        1 => body[l - 1] = 0,
                        _ => {}
                    }
                    // text that starts like a byte order mark is text like any other
                    if cx.rng.chance(1, 3) {
                        let bom: &[u8] = [&[0xefu8, 0xbb, 0xbf][..], &[0xff, 0xfe], &[0xfe, 0xff]][cx.rng.below(3) as usize];
                        for (i, b) in bom.iter().enumerate() {
                            if i < body.len() {
                                body[i] = *b;
                            }
                        }
                    }
                    let mut v = vec![if cx.rng.chance(1, 5) { 0x80 | l as u8 } else { l as u8 }];
                    v.extend(body);
                    v
                }
                0 => (0 .. n).map(|_| *cx.rng.pick(&ALPHABET)).collect(),
                1 => cx.rng.bytes(n),
                _ => {
                    // text-like with terminators
                    let s = cx.rng.text(n, &[]);
                    let mut b = s.into_bytes();
                    b.truncate(n);
                    if cx.rng.bool() {
                        b.push(0);
                    }
                    let l = b.len();
                    let mut v = vec![l.min(255) as u8];
                    v.extend(b);
                    v
                }
            };
            // the disagreeing strings are mostly read as what they are
            let ops = if class == 3 && cx.rng.chance(3, 4) { vec![Op::Unreal2, Op::Unreal2, Op::Unreal2, Op::U8, Op::Remaining, Op::Utf8(None), Op::Utf8Len(None)] } else { self.ops.clone() };
            let depth = cx.rng.usize(1, 12);
            random_sequence(cx, &data, &ops, depth);
            return;
        }
        idx -= self.n_random(tier);
        if idx < self.n_varint_blocks(tier) {
            // block of 65536 consecutive integers; quick tier takes blocks spread over the range + boundaries
            let block = if tier == Tier::Thorough {
                idx
            } else {
                // 64 blocks around 0 / sign boundaries, rest spread evenly
                match idx {
                    0 ..= 31 => idx,
                    32 ..= 63 => 65535 - (idx - 32),
                    64 ..= 95 => 32768 + (idx - 64),
                    96 ..= 127 => 32767 - (idx - 96),
                    _ => (idx - 128) * 512 + cx.rng.below(512),
                }
            };
            let base = (block as u32) << 16;
            for lo in 0 .. 65536u32 {
                varint_roundtrip(cx, (base | lo) as i32);
            }
            cx.stats.evaluations += 65536;
            cx.count_n("varint_roundtrips", 65536);
            cx.nontrivial(hash64(&block.to_le_bytes()) ^ 0x5555);
            if block == 0 {
                cx.sample(|| json!({"kind":"varint round trip block","first": base as i32, "count": 65536}));
            }
            return;
        }
        idx -= self.n_varint_blocks(tier);
        if idx < self.n_decode(tier) {
            // 64 encodings per case: lengths 1..=5 over DEC_ALPHA (11^5 = 161051 strings of length 5; shorter ones are prefixes + truncation)
            for j in 0 .. 64u64 {
                let mut code = idx * 64 + j;
                if code >= 11u64.pow(5) {
                    break;
                }
                let mut bytes = Vec::new();
                for _ in 0 .. 5 {
                    bytes.push(DEC_ALPHA[(code % 11) as usize]);
                    code /= 11;
                }
                for l in 1 ..= 5 {
                    varint_decode_case(cx, &bytes[.. l]);
                }
                // and a 6-byte one (continuation into a sixth byte)
                let mut six = bytes.clone();
                six.push(0x01);
                varint_decode_case(cx, &six);
            }
            cx.count("varint_decode_batches");
            return;
        }
        idx -= self.n_decode(tier);
        if idx < self.n_strings(tier) {
            cx.count("string_codec_cases");
            match cx.rng.below(4) {
                0 => {
                    let n = *cx.rng.pick(&[0usize, 1, 127, 128, 129, 255, 256, 16383, 16384, 16385, 70_000]);
                    let s = cx.rng.text_class(cx.idx % 9, n, &[]);
                    string_codec_case(cx, &s);
                }
                1 => {
                    let s = cx.rng.text(300, &[]);
                    string_codec_case(cx, &s);
                }
                _ => {
                    // hostile: arbitrary length prefix followed by fewer / more / exactly that many bytes
                    let l: i32 = match cx.rng.below(8) {
                        0 => -1,
                        1 => i32::MIN,
                        2 => i32::MAX,
                        3 => 0x0fff_ffff,
                        4 => 1 << cx.rng.below(31),
                        _ => cx.rng.below(64) as i32,
                    };
                    let mut bytes = ref_varint(l);
                    let avail = match cx.rng.below(4) {
                        0 => 0,
                        1 => (l.max(0) as usize).min(200),
                        2 => (l.max(0) as usize).min(200).saturating_sub(1),
                        _ => cx.rng.usize(0, 80),
                    };
                    let body = if cx.rng.bool() { cx.rng.bytes(avail) } else { cx.rng.text(avail, &[]).into_bytes() };
                    bytes.extend(body);
                    string_decode_hostile(cx, &bytes);
                }
            }
            return;
        }
        // last case: small total functions
        for n in 0 ..= 255u8 {
            cx.eval();
            let (lo, hi) = u8_lower_upper(n);
            if lo != (n & 0x0f) || hi != (n >> 4) {
                cx.violation("C17 u8_lower_upper", || json!({"n": n, "got": [lo, hi]}));
            }
        }
        for e in [0usize, 1, 2, 3, 69, usize::MAX] {
            for s in [0usize, 1, 2, 3, 68, 69, 70, usize::MAX] {
                cx.eval();
                let r = error_by_expected_size(e, s);
                let ok = match s.cmp(&e) {
                    std::cmp::Ordering::Equal => r.is_ok(),
                    std::cmp::Ordering::Greater => matches!(&r, Err(x) if x.kind == gamedig::GDErrorKind::PacketOverflow),
                    std::cmp::Ordering::Less => matches!(&r, Err(x) if x.kind == gamedig::GDErrorKind::PacketUnderflow),
                };
                if !ok {
                    cx.violation("C17 error_by_expected_size", || json!({"expected": e, "size": s}));
                }
            }
        }
        cx.nontrivial(0x1717);
    }

    fn sufficient(&self, tier: Tier, m: &Stats) -> Result<(), String> {
        let need = N_SMALL;
        let got = m.counters.get("reader_closure_packets").copied().unwrap_or(0);
        if got < need {
            return Err(format!("reader closure ran on {got} of {need} packets"));
        }
        let vr = m.counters.get("varint_roundtrips").copied().unwrap_or(0);
        if vr < self.n_varint_blocks(tier) * 65536 {
            return Err(format!("varint round trips {vr} below plan"));
        }
        Ok(())
    }

    fn extra_coverage(&self, tier: Tier, m: &Stats) -> Value {
        json!({
            "reader_packets_enumerated": m.counters.get("reader_closure_packets"),
            "varint_values_round_tripped": m.counters.get("varint_roundtrips"),
            "varint_all_2_32": tier == Tier::Thorough,
        })
    }

    fn budget_s(&self, tier: Tier) -> u64 { tier.pick(120, 1800) }
}

pub fn _unused(_: &mut Rng) {}
