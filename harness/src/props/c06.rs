//! C06 — Unreal 2 replies decode strings and lists without loss or addition.

use crate::core::framework::{Check, Cx, Stats, Tier};
use crate::core::monitor::{kind_name, norm_msg, run_with, Outcome, DEFAULT_STEP_LIMIT};
use crate::core::net::hex;
use crate::core::rng::hash64;
use crate::models::unreal2::{Deco, U2Server, UPlayer, UState, UStr};
use crate::props::c02::addr;
use gamedig::protocols::types::GatherToggle;
use gamedig::protocols::unreal2::{self, GatheringSettings, Response};
use serde_json::{json, Value};

pub struct C06;

const DECOS: [Deco; 5] = [Deco::None, Deco::ColourStart, Deco::ColourMiddle, Deco::ColourEnd, Deco::Control];
/// positions a swept string can take
const POSITIONS: usize = 7; // ip, name, map, game_type, rule key, rule value, player name
const SWEEP: u64 = 256 * DECOS.len() as u64 * POSITIONS as u64;

pub fn diff(got: &Response, exp: &Response) -> Option<(String, String)> {
    let (g, e) = (&got.server_info, &exp.server_info);
    macro_rules! f {
        ($($n:ident),*) => { $( if g.$n != e.$n { return Some((format!("wrong-field field=server_info.{}", stringify!($n)), format!("got {:?} expected {:?}", g.$n, e.$n))); } )* };
    }
    f!(server_id, ip, game_port, query_port, name, map, game_type, num_players, max_players, password);
    if got.mutators_and_rules.mutators != exp.mutators_and_rules.mutators {
        return Some(("mutators".into(), format!("got {:?} expected {:?}", got.mutators_and_rules.mutators, exp.mutators_and_rules.mutators)));
    }
    if got.mutators_and_rules.rules != exp.mutators_and_rules.rules {
        let (gr, er) = (&got.mutators_and_rules.rules, &exp.mutators_and_rules.rules);
        let what = if let Some(k) = er.keys().find(|k| !gr.contains_key(*k)) {
            ("rules missing-key", format!("{k:?}"))
        } else if let Some(k) = gr.keys().find(|k| !er.contains_key(*k)) {
            ("rules extra-key", format!("{k:?}"))
        } else {
            let k = er.keys().find(|k| gr[*k] != er[*k]).unwrap();
            ("rules wrong-values", format!("{k:?}: got {:?} expected {:?}", gr[k], er[k]))
        };
        return Some((what.0.into(), what.1));
    }
    if got.players != exp.players {
        let what = if got.players.total_len() != exp.players.total_len() {
            if got.players.total_len() == 0 {
                "players-empty"
            } else {
                "players-count"
            }
        } else if got.players.players.len() != exp.players.players.len() {
            "players bot-classification"
        } else {
            "players-content"
        };
        return Some((what.into(), format!("got {}+{} expected {}+{}", got.players.players.len(), got.players.bots.len(), exp.players.players.len(), exp.players.bots.len())));
    }
    None
}

impl C06 {
    fn run_state(&self, cx: &mut Cx, st: &UState, n_rule_d: usize, n_player_d: usize, label: &str, sweep: Option<(u8, Deco, usize)>) {
        let gs = GatheringSettings { players: *cx.rng.pick(&[GatherToggle::Try, GatherToggle::Enforce, GatherToggle::Skip]), mutators_and_rules: *cx.rng.pick(&[GatherToggle::Try, GatherToggle::Enforce, GatherToggle::Enforce, GatherToggle::Skip]) };
        let info = st.info_datagram();
        let rules = st.rules_datagrams(n_rule_d);
        // a server with nobody on it may stay silent on the players request; under Enforce that silence is a failure by definition (C11), so there the model always answers
        let players = st.players_datagrams(n_player_d, cx.rng.bool() || st.num_players == 0 || gs.players == GatherToggle::Enforce);
        cx.eval();
        let all: Vec<&Vec<u8>> = std::iter::once(&info).chain(rules.iter()).chain(players.iter()).collect();
        if all.iter().any(|d| d.len() > 1024) {
            cx.observe("datagram larger than the 1024 bytes the client reads");
            return;
        }
        let ts = gamedig::TimeoutSettings::new(None, None, None, cx.rng.below(2) as usize).ok();
        let a = addr(7778);
        let exp = st.expected(gs.mutators_and_rules != GatherToggle::Skip, gs.players != GatherToggle::Skip);
        let shape = format!("{label}|rules={}x{}|players={}x{}|gather={:?}/{:?}", st.rules.len().min(9), rules.len(), st.players.len().min(9), players.len(), gs.mutators_and_rules, gs.players);
        cx.shape(&format!("{label}|rd={}|pd={}", rules.len().min(7), players.len().min(7)));
        let dump = || json!({"shape": shape, "sweep": sweep.map(|(l, d, p)| json!({"length_byte": l, "decoration": format!("{d:?}"), "position": p})), "info": hex(&info), "rules": rules.iter().map(|d| hex(d)).collect::<Vec<_>>(), "players": players.iter().map(|d| hex(d)).collect::<Vec<_>>()});
        let server = U2Server::new(info.clone(), rules.clone(), players.clone());
        let run = run_with(server, DEFAULT_STEP_LIMIT, || unreal2::query(&a, &gs, ts));
        let enc_class = |sig: &str| -> String {
            // which string encodings are involved (only meaningful for sweep cases)
            match sweep {
                Some((l, d, _)) => format!("{sig} enc={} deco={d:?} len-class={}", if l >= 0x80 { "ucs2" } else { "latin1" }, match l & 0x7f {
                    0 => "0",
                    1 => "1",
                    2 ..= 0x1a => "2..26",
                    0x1b => "27",
                    _ => "28..127",
                }),
                None => sig.to_string(),
            }
        };
        match run.outcome {
            Outcome::Returned(Ok(got)) => match diff(&got, &exp) {
                None => {
                    let mut h = info.clone();
                    for d in rules.iter().chain(players.iter()) {
                        h.extend(d);
                    }
                    cx.nontrivial(hash64(&h));
                    if !st.players.is_empty() && gs.players != GatherToggle::Skip {
                        cx.count("states-with-players-all-returned");
                    }
                    cx.sample(|| json!({"shape": shape, "info": hex(&info)}));
                }
                Some((sig, what)) => cx.violation(enc_class(&format!("C06 {sig}")), || {
                    let mut d = dump();
                    d["what"] = json!(what);
                    d
                }),
            },
            Outcome::Returned(Err(e)) => cx.violation(enc_class(&format!("C06 valid-reply-rejected kind={}", kind_name(&e.kind))), || {
                let mut d = dump();
                d["error"] = json!(format!("{:?}", e.kind));
                d
            }),
            Outcome::Panicked(p) => cx.violation(format!("C06 panic at {} msg=\"{}\"", p.loc, norm_msg(&p.msg)), dump),
            Outcome::StepLimit { .. } => cx.violation("C06 step-limit", dump),
        }
    }
}

impl Check for C06 {
    fn id(&self) -> &'static str { "C06" }
    fn memcheck_plan(&self, tier: Tier) -> Option<(crate::core::framework::MemMode, Vec<(u64, u64)>)> {
        if tier != Tier::Thorough {
            return None;
        }
        let total = self.total_cases(tier);
        let n = 1000u64.min(total / 16);
        Some((crate::core::framework::MemMode::Harness, (0 .. 16).map(|i| (i * (total / 16), n)).collect()))
    }
    fn miri_plan(&self, tier: Tier) -> Option<Vec<(u64, u64)>> {
        if tier != Tier::Thorough {
            return None;
        }
        Some((0 .. 16).map(|i| (i * 560 + 7, 30)).collect())
    }
    fn rule(&self) -> String {
        "exhaustive sweep: every length byte 0..=255 (Latin-1 lengths 0-127, UCS-2 lengths 0-127) x 5 decorations (none, colour escape at start/middle/end, control codes) x 7 string positions (ip, name, map, game type, rule key, rule value, player name), plus random states (repeated rule keys, mutators, 0-64 players, bots, 1-6 datagrams per list); unreal2::query must return numeric fields exactly and strings = sent text with colour/control codes removed. non-trivial = Ok and equal; distinct by datagram bytes".into()
    }
    fn assumptions(&self) -> Vec<String> {
        vec![
            "format as in DESIGN.md Appendix A.6; Latin-1 text drawn from 20-7e and a0-ff (bytes 80-9f, where windows-1252 and ISO-8859-1 differ, are not generated); a UCS-2 string whose first unit has low byte 01 is not generated (documented ambiguity); no truncated colour escapes; no NUL inside text; the stray 01 byte some games put between the length byte and UCS-2 data (the reader documents that it skips it) is sent in a quarter of the random UCS-2 strings and at every second position of the sweep".into(),
            "server_info.num_players equals the number of players listed or exceeds it (a server that lists more players than it announces is inconsistent)".into(),
        ]
    }
    fn total_cases(&self, tier: Tier) -> u64 { SWEEP + tier.pick(200_000, 1_500_000) }
    fn exhaustive(&self, _tier: Tier) -> Option<bool> { Some(true) }
    fn case_label(&self, _tier: Tier, idx: u64) -> String { if idx < SWEEP { "sweep".into() } else { "random".into() } }
    fn run_case(&mut self, cx: &mut Cx) {
        if cx.idx < SWEEP {
            cx.count("sweep-cases");
            let l = (cx.idx % 256) as u8;
            let deco = DECOS[((cx.idx / 256) % DECOS.len() as u64) as usize];
            let pos = (cx.idx / (256 * DECOS.len() as u64)) as usize;
            let ucs2 = l >= 0x80;
            let total = (l & 0x7f) as usize;
            // the swept string: total units including the NUL when there is room for one
            let s = if ucs2 {
                let with_nul = total > 0 && cx.rng.bool();
                let mut s = UStr::gen(&mut cx.rng, true, total.saturating_sub(with_nul as usize + deco_cost(deco)), deco, with_nul);
                pad_to(&mut cx.rng, &mut s, total);
                // the stray 01 byte of some games in front of the data: every second position of the sweep
                s.extra01 = total > 0 && pos % 2 == 1;
                if s.extra01 {
                    cx.count("sweep-ucs2-strings-with-the-stray-01-byte");
                }
                s
            } else if total == 0 {
                UStr { units: vec![], ucs2: false, with_nul: false, extra01: false }
            } else {
                let mut s = UStr::gen(&mut cx.rng, false, (total - 1).saturating_sub(deco_cost(deco)), deco, true);
                pad_to(&mut cx.rng, &mut s, total);
                s
            };
            let mut st = UState::gen(&mut cx.rng, 2, 3);
            // keep the other strings short so that the datagram fits
            for (other, t) in [(&mut st.ip, "1.2.3.4"), (&mut st.name, "name"), (&mut st.map, "map"), (&mut st.game_type, "type")] {
                *other = UStr::from_text(t);
            }
            // the byte after a zero-length UCS-2 string (length byte 0x80) must not be 01 (documented ambiguity)
            st.game_port = 2;
            match pos {
                0 => st.ip = s,
                1 => st.name = s,
                2 => st.map = s,
                3 => st.game_type = s,
                4 => {
                    // a rule key: avoid colliding with the special keys
                    st.rules.push((s, UStr::from_text("value")));
                }
                5 => st.rules.push((UStr::from_text("SweptRule"), s)),
                _ => st.players.push(UPlayer { id: 99, name: s, ping: 5, score: 1, stats_id: 2 }),
            }
            st.num_players = st.players.len() as u32;
            let st2 = st.clone();
            self.run_state(cx, &st2, 1, 1, "sweep", Some((l, deco, pos)));
            return;
        }
        cx.count("random-cases");
        let np = match cx.rng.below(8) {
            0 => 0,
            1 => 1,
            2 => 64,
            _ => cx.rng.usize(0, 16),
        };
        let nr = match cx.rng.below(6) {
            0 => 0,
            1 => 1,
            _ => cx.rng.usize(0, 30),
        };
        let st = UState::gen(&mut cx.rng, np, nr);
        let stray = [&st.ip, &st.name, &st.map, &st.game_type].into_iter().chain(st.rules.iter().flat_map(|(k, v)| [k, v])).chain(st.players.iter().map(|p| &p.name)).filter(|u| u.extra01).count();
        cx.count_n("random-ucs2-strings-with-the-stray-01-byte", stray as u64);
        let (a, b) = (cx.rng.usize(1, 6), cx.rng.usize(1, 6));
        self.run_state(cx, &st, a, b, "random", None);
    }
    fn sufficient(&self, _tier: Tier, m: &Stats) -> Result<(), String> {
        let s = m.counters.get("sweep-cases").copied().unwrap_or(0);
        if s < SWEEP {
            return Err(format!("sweep ran {s} of {SWEEP} cases"));
        }
        Ok(())
    }
    fn extra_coverage(&self, _tier: Tier, m: &Stats) -> Value { json!({"sweep_cases": m.counters.get("sweep-cases"), "sweep_planned": SWEEP, "random_cases": m.counters.get("random-cases"), "ucs2_strings_with_the_stray_01_byte": {"sweep": m.counters.get("sweep-ucs2-strings-with-the-stray-01-byte"), "random": m.counters.get("random-ucs2-strings-with-the-stray-01-byte")}}) }
}

fn deco_cost(d: Deco) -> usize {
    match d {
        Deco::None => 0,
        Deco::ColourStart | Deco::ColourMiddle | Deco::ColourEnd => 4,
        Deco::Control => 0,
        Deco::Mixed => 0,
    }
}

/// make the string's sent length exactly `total` units (including its NUL)
fn pad_to(rng: &mut crate::core::rng::Rng, s: &mut UStr, total: usize) {
    let want = total.saturating_sub(s.with_nul as usize);
    while s.units.len() < want {
        let c = if s.ucs2 { 0x4e2d } else { b'x' as u16 };
        // appended after any escape so that no escape is left truncated
        s.units.push(c);
    }
    if s.units.len() > want {
        s.units.truncate(want);
        for back in 1 ..= 3 {
            if s.units.len() >= back && s.units[s.units.len() - back] == 0x1b {
                let at = s.units.len() - back;
                for u in &mut s.units[at ..] {
                    *u = b'y' as u16;
                }
                break;
            }
        }
    }
    let _ = rng;
}
