//! C04 — GameSpy 1/2/3 replies are decoded completely (differential against the server models).

use crate::core::framework::{Check, Cx, Stats, Tier};
use crate::core::monitor::{kind_name, norm_msg, run_with, Outcome, DEFAULT_STEP_LIMIT};
use crate::core::net::hex;
use crate::core::rng::hash64;
use crate::models::gamespy::*;
use crate::props::c02::addr;
use gamedig::protocols::gamespy;
use serde_json::{json, Value};
use std::collections::HashMap;

pub struct C04;

fn counts(cx: &mut Cx) -> (usize, usize, usize) {
    let np = match cx.rng.below(8) {
        0 => 0,
        1 => 1,
        2 => 2,
        3 => 64,
        _ => cx.rng.usize(0, 16),
    };
    let nt = match cx.rng.below(5) {
        0 => 0,
        1 => 1,
        2 => 8,
        _ => cx.rng.usize(0, 4),
    };
    let ne = match cx.rng.below(5) {
        0 => 0,
        1 => 1,
        _ => cx.rng.usize(0, 12),
    };
    (np, nt, ne)
}

fn map_diff(got: &HashMap<String, String>, exp: &HashMap<String, String>) -> Option<String> {
    for (k, v) in exp {
        match got.get(k) {
            None => return Some(format!("missing key {k:?}")),
            Some(g) if g != v => return Some(format!("wrong value for {k:?}")),
            _ => {}
        }
    }
    for k in got.keys() {
        if !exp.contains_key(k) {
            return Some(format!("extra key {k:?}"));
        }
    }
    None
}

fn class_of(diff: &str) -> &'static str {
    if diff.starts_with("missing") {
        "missing-entry"
    } else if diff.starts_with("extra") {
        "extra-entry"
    } else {
        "wrong-value"
    }
}

macro_rules! field_diff {
    ($g:expr, $e:expr; $($n:ident),*) => {{
        let mut d: Option<String> = None;
        $( if d.is_none() && $g.$n != $e.$n { d = Some(stringify!($n).to_string()); } )*
        d
    }};
}

impl C04 {
    fn gs1(&self, cx: &mut Cx, vars_only: bool) {
        let (np, _nt, ne) = counts(cx);
        let st = Gs1State::gen(&mut cx.rng, np, ne);
        let nparts = cx.rng.usize(1, 7);
        let dgrams = st.encode(&mut cx.rng, nparts);
        let retries = cx.rng.below(2) as usize;
        let ts = gamedig::TimeoutSettings::new(None, None, None, retries).ok();
        let a = addr(7778);
        let shape = format!("gs1|vars={vars_only}|np={}|ne={}|parts={}|opt={}", np.min(9), ne.min(5), dgrams.len().min(9), st.players.first().map(|p| (p.team.is_some() as u8) | ((p.face.is_some() as u8) << 1) | ((p.deaths.is_some() as u8) << 2) | ((p.secret.is_some() as u8) << 3)).unwrap_or(0));
        let detail = |what: String| json!({"what": what, "version": 1, "shape": shape, "datagrams": dgrams.iter().map(|d| String::from_utf8_lossy(d).to_string()).collect::<Vec<_>>()});
        cx.eval();
        cx.shape(&shape);
        if dgrams.iter().any(|d| d.len() > 1024) {
            cx.observe("gs1 part larger than the 1024 byte datagram the client reads");
            return;
        }
        if vars_only {
            let run = run_with(OneShotUdp::new(GS1_REQUEST, dgrams.clone()), DEFAULT_STEP_LIMIT, || gamespy::one::query_vars(&a, ts));
            match run.outcome {
                Outcome::Returned(Ok(got)) => match map_diff(&got, &st.expected_vars()) {
                    None => cx.nontrivial(hash64(&dgrams.concat())),
                    Some(d) => cx.violation(format!("C04 gs1 query_vars {}", class_of(&d)), || detail(d.clone())),
                },
                Outcome::Returned(Err(e)) => cx.violation(format!("C04 gs1 query_vars valid-reply-rejected kind={}", kind_name(&e.kind)), || detail(format!("{:?}", e.kind))),
                Outcome::Panicked(p) => cx.violation(format!("C04 panic at {} msg=\"{}\"", p.loc, norm_msg(&p.msg)), || detail(p.msg.clone())),
                Outcome::StepLimit { .. } => cx.violation("C04 gs1 step-limit", || detail("step limit".into())),
            }
            return;
        }
        let run = run_with(OneShotUdp::new(GS1_REQUEST, dgrams.clone()), DEFAULT_STEP_LIMIT, || gamespy::one::query(&a, ts));
        let exp = st.expected();
        match run.outcome {
            Outcome::Returned(Ok(got)) => {
                cx.count("gs1-ok");
                if np > 0 {
                    cx.count("gs1-states-with-players");
                    if got.players.len() == np {
                        cx.count("gs1-all-players-returned");
                    }
                }
                let d = field_diff!(got, exp; name, map, map_title, admin_contact, admin_name, has_password, game_mode, game_version, players_maximum, players_online, players_minimum, tournament);
                if let Some(f) = d {
                    cx.violation(format!("C04 gs1 wrong-field field={f}"), || detail(f.clone()));
                } else if got.players != exp.players {
                    let what = if got.players.len() != exp.players.len() { format!("players.len got {} expected {}", got.players.len(), exp.players.len()) } else { "players differ".to_string() };
                    let sig = if got.players.is_empty() { "players-empty" } else if got.players.len() != exp.players.len() { "players-count" } else { "players-content" };
                    cx.violation(format!("C04 gs1 {sig}"), || detail(what.clone()));
                } else if let Some(d) = map_diff(&got.unused_entries, &exp.unused_entries) {
                    cx.violation(format!("C04 gs1 unused_entries {}", class_of(&d)), || detail(d.clone()));
                } else {
                    cx.nontrivial(hash64(&dgrams.concat()));
                    cx.sample(|| json!({"version": 1, "shape": shape, "first_datagram": String::from_utf8_lossy(&dgrams[0]).to_string()}));
                }
            }
            Outcome::Returned(Err(e)) => cx.violation(format!("C04 gs1 valid-reply-rejected kind={}", kind_name(&e.kind)), || detail(format!("{:?}", e.kind))),
            Outcome::Panicked(p) => cx.violation(format!("C04 panic at {} msg=\"{}\"", p.loc, norm_msg(&p.msg)), || detail(p.msg.clone())),
            Outcome::StepLimit { .. } => cx.violation("C04 gs1 step-limit", || detail("step limit".into())),
        }
    }

    fn gs2(&self, cx: &mut Cx) {
        let (np, nt, ne) = counts(cx);
        let st = Gs2State::gen(&mut cx.rng, np, nt, ne);
        let d = st.encode(&mut cx.rng);
        let ts = gamedig::TimeoutSettings::new(None, None, None, cx.rng.below(2) as usize).ok();
        let a = addr(2302);
        let shape = format!("gs2|np={}|nt={}|ne={}|num={}", np.min(9), nt, ne.min(5), st.numplayers.is_some());
        let detail = |what: String| json!({"what": what, "version": 2, "shape": shape, "datagram": hex(&d)});
        cx.eval();
        cx.shape(&shape);
        // the receive buffer is 1024 bytes: larger states are outside what one datagram can carry
        if d.len() > 1024 {
            cx.observe("gs2 state larger than the 1024 byte datagram the client reads");
            return;
        }
        let run = run_with(OneShotUdp::new(GS2_REQUEST, vec![d.clone()]), DEFAULT_STEP_LIMIT, || gamespy::two::query(&a, ts));
        let exp = st.expected();
        match run.outcome {
            Outcome::Returned(Ok(got)) => {
                if np > 0 {
                    cx.count("gs2-states-with-players");
                    if got.players.len() == np {
                        cx.count("gs2-all-players-returned");
                    }
                }
                let fd = field_diff!(got, exp; name, map, has_password, players_maximum, players_online, players_minimum);
                if let Some(f) = fd {
                    cx.violation(format!("C04 gs2 wrong-field field={f}"), || detail(f.clone()));
                } else if got.players != exp.players {
                    let sig = if got.players.is_empty() { "players-empty" } else if got.players.len() != exp.players.len() { "players-count" } else { "players-content" };
                    cx.violation(format!("C04 gs2 {sig}"), || detail(format!("players got {} expected {}", got.players.len(), exp.players.len())));
                } else if got.teams != exp.teams {
                    let sig = if got.teams.is_empty() { "teams-empty" } else { "teams-content" };
                    cx.violation(format!("C04 gs2 {sig}"), || detail(format!("teams got {} expected {}", got.teams.len(), exp.teams.len())));
                } else if let Some(dd) = map_diff(&got.unused_entries, &exp.unused_entries) {
                    cx.violation(format!("C04 gs2 unused_entries {}", class_of(&dd)), || detail(dd.clone()));
                } else {
                    cx.nontrivial(hash64(&d));
                    cx.sample(|| json!({"version": 2, "shape": shape, "datagram": hex(&d[.. d.len().min(120)])}));
                }
            }
            Outcome::Returned(Err(e)) => cx.violation(format!("C04 gs2 valid-reply-rejected kind={}", kind_name(&e.kind)), || detail(format!("{:?}", e.kind))),
            Outcome::Panicked(p) => cx.violation(format!("C04 panic at {} msg=\"{}\"", p.loc, norm_msg(&p.msg)), || detail(p.msg.clone())),
            Outcome::StepLimit { .. } => cx.violation("C04 gs2 step-limit", || detail("step limit".into())),
        }
    }

    fn gs3(&self, cx: &mut Cx, vars_only: bool) {
        let (np, nt, ne) = counts(cx);
        let st = Gs3State::gen(&mut cx.rng, np, nt, ne);
        let npk = if np + nt == 0 { 1 } else { cx.rng.usize(1, 7) };
        let payloads = st.payloads(&mut cx.rng, npk);
        let dgrams = Gs3State::frame(&payloads);
        let ts = gamedig::TimeoutSettings::new(None, None, None, cx.rng.below(2) as usize).ok();
        let a = addr(64100);
        let challenge = match cx.rng.below(4) {
            0 => "0".to_string(),
            1 => cx.rng.b_i32().to_string(),
            _ => cx.rng.below(1 << 31).to_string(),
        };
        let shape = format!("gs3|vars={vars_only}|np={}|nt={}|ne={}|packets={}|pid={}", np.min(9), nt, ne.min(5), dgrams.len(), st.pids.is_some());
        let detail = |what: String| json!({"what": what, "version": 3, "shape": shape, "datagrams": dgrams.iter().map(|d| hex(d)).collect::<Vec<_>>()});
        cx.eval();
        cx.shape(&shape);
        if dgrams.iter().any(|d| d.len() > 2048) {
            cx.observe("gs3 packet larger than the 2048 byte datagram the client reads");
            return;
        }
        if vars_only {
            let run = run_with(Gs3Server::new(&challenge, dgrams.clone()), DEFAULT_STEP_LIMIT, || gamespy::three::query_vars(&a, ts));
            let exp: HashMap<String, String> = st.pairs().into_iter().collect();
            match run.outcome {
                Outcome::Returned(Ok(got)) => match map_diff(&got, &exp) {
                    None => cx.nontrivial(hash64(&dgrams.concat())),
                    Some(d) => cx.violation(format!("C04 gs3 query_vars {} packets={}", class_of(&d), if dgrams.len() > 1 { "multi" } else { "one" }), || detail(d.clone())),
                },
                Outcome::Returned(Err(e)) => cx.violation(format!("C04 gs3 query_vars valid-reply-rejected kind={}", kind_name(&e.kind)), || detail(format!("{:?}", e.kind))),
                Outcome::Panicked(p) => cx.violation(format!("C04 panic at {} msg=\"{}\"", p.loc, norm_msg(&p.msg)), || detail(p.msg.clone())),
                Outcome::StepLimit { .. } => cx.violation("C04 gs3 step-limit", || detail("step limit".into())),
            }
            return;
        }
        let run = run_with(Gs3Server::new(&challenge, dgrams.clone()), DEFAULT_STEP_LIMIT, || gamespy::three::query(&a, ts));
        let exp = st.expected();
        match run.outcome {
            Outcome::Returned(Ok(got)) => {
                if np > 0 {
                    cx.count("gs3-states-with-players");
                    if got.players.len() == np {
                        cx.count("gs3-all-players-returned");
                    }
                }
                let fd = field_diff!(got, exp; name, map, has_password, game_mode, game_version, players_maximum, players_online, players_minimum, tournament);
                if let Some(f) = fd {
                    cx.violation(format!("C04 gs3 wrong-field field={f}"), || detail(f.clone()));
                } else if got.players != exp.players {
                    let sig = if got.players.is_empty() { "players-empty" } else if got.players.len() != exp.players.len() { "players-count" } else { "players-content" };
                    cx.violation(format!("C04 gs3 {sig}"), || detail(format!("players got {} expected {}", got.players.len(), exp.players.len())));
                } else if got.teams != exp.teams {
                    let sig = if got.teams.is_empty() { "teams-empty" } else { "teams-content" };
                    cx.violation(format!("C04 gs3 {sig}"), || detail(format!("teams got {} expected {}", got.teams.len(), exp.teams.len())));
                } else if let Some(dd) = map_diff(&got.unused_entries, &exp.unused_entries) {
                    cx.violation(format!("C04 gs3 unused_entries {}", class_of(&dd)), || detail(dd.clone()));
                } else {
                    cx.nontrivial(hash64(&dgrams.concat()));
                    cx.sample(|| json!({"version": 3, "shape": shape, "first_datagram": hex(&dgrams[0][.. dgrams[0].len().min(120)])}));
                }
            }
            Outcome::Returned(Err(e)) => cx.violation(format!("C04 gs3 valid-reply-rejected kind={}", kind_name(&e.kind)), || detail(format!("{:?}", e.kind))),
            Outcome::Panicked(p) => cx.violation(format!("C04 panic at {} msg=\"{}\"", p.loc, norm_msg(&p.msg)), || detail(p.msg.clone())),
            Outcome::StepLimit { .. } => cx.violation("C04 gs3 step-limit", || detail("step limit".into())),
        }
    }
}

impl Check for C04 {
    fn id(&self) -> &'static str { "C04" }
    fn memcheck_plan(&self, tier: Tier) -> Option<(crate::core::framework::MemMode, Vec<(u64, u64)>)> {
        if tier != Tier::Thorough {
            return None;
        }
        let total = self.total_cases(tier);
        let n = 1000u64.min(total / 16);
        Some((crate::core::framework::MemMode::Harness, (0 .. 16).map(|i| (i * (total / 16), n)).collect()))
    }
    fn miri_plan(&self, tier: Tier) -> Option<Vec<(u64, u64)>> {
        if tier != Tier::Thorough {
            return None;
        }
        Some((0 .. 16).map(|i| (i * 24, 24)).collect())
    }
    fn rule(&self) -> String {
        "random GameSpy 1/2/3 server states (0-64 players, 0-8 teams, extra variables, optional per-player fields, 1-7 parts/packets) encoded by independent server models; query must return every scalar, every player and team exactly as sent and unused_entries == sent variables minus consumed keys (both directions); query_vars must return exactly the sent map. non-trivial = Ok and equal; distinct by datagram bytes".into()
    }
    fn assumptions(&self) -> Vec<String> {
        vec![
            "formats as in DESIGN.md Appendix A.2-A.4 (implementation-defined protocols: the layout the reader is meant to consume); oracle = completeness".into(),
            "domain: keys/values without backslash (GS1) and NUL; GS3 values non-empty with first byte >= 3; player indices contiguous from 0; tournament/ngsecret spelled true/false; absent 'tournament' is reported as true (implementation default)".into(),
            "states whose single datagram exceeds the client's receive size (GS2 1024, GS3 2048 bytes) are observe-only".into(),
        ]
    }
    fn total_cases(&self, tier: Tier) -> u64 { tier.pick(500_000, 2_000_000) }
    fn run_case(&mut self, cx: &mut Cx) {
        match cx.idx % 8 {
            0 | 1 => self.gs1(cx, false),
            2 => self.gs1(cx, true),
            3 | 4 => self.gs2(cx),
            5 | 6 => self.gs3(cx, false),
            _ => self.gs3(cx, true),
        }
    }
    fn sufficient(&self, _tier: Tier, m: &Stats) -> Result<(), String> {
        for v in ["gs1", "gs2", "gs3"] {
            let with = m.counters.get(&format!("{v}-states-with-players")).copied().unwrap_or(0);
            if with < 100 {
                return Err(format!("{v}: only {with} states with players reached the comparison"));
            }
        }
        Ok(())
    }
    fn extra_coverage(&self, _tier: Tier, m: &Stats) -> Value {
        let g = |k: &str| m.counters.get(k).copied().unwrap_or(0);
        json!({
            "states_with_players_whose_players_all_came_back": {
                "gs1": [g("gs1-all-players-returned"), g("gs1-states-with-players")],
                "gs2": [g("gs2-all-players-returned"), g("gs2-states-with-players")],
                "gs3": [g("gs3-all-players-returned"), g("gs3-states-with-players")],
            }
        })
    }
}
