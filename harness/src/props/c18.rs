//! C18 — settings are validated; no accepted configuration can panic.

use crate::core::framework::{verif_root, Check, Cx, Stats, Tier};
use crate::core::monitor::{guarded, norm_msg, Outcome};
use crate::core::rng::{hash64, Rng};
use crate::models::misc::{http_once, EcoState};
use crate::props::hostile::{all_eps, call, ep_family, ep_name, execute, record_seed, Ep, Settings};
use clap::Parser;
use gamedig::verif_hook::{SocketTrait, TcpSocketImpl, UdpSocketImpl};
use gamedig::{GDErrorKind, TimeoutSettings};
use serde_json::{json, Value};
use std::net::{IpAddr, Ipv4Addr, SocketAddr};
use std::time::Duration;

pub struct C18 {
    eps: Vec<Ep>,
}

#[derive(Debug, Clone, Copy, PartialEq, Eq)]
enum D {
    None,
    Zero,
    Ns1,
    Ms1,
    Max,
}
const DS: [D; 5] = [D::None, D::Zero, D::Ns1, D::Ms1, D::Max];
const RETRIES: [usize; 5] = [0, 1, 2, usize::MAX - 1, usize::MAX];

fn dur(d: D) -> Option<Duration> {
    match d {
        D::None => None,
        D::Zero => Some(Duration::ZERO),
        D::Ns1 => Some(Duration::from_nanos(1)),
        D::Ms1 => Some(Duration::from_millis(1)),
        D::Max => Some(Duration::from_secs(u64::MAX)),
    }
}

#[derive(Parser, Debug)]
struct Wrapper {
    #[command(flatten)]
    timeouts: TimeoutSettings,
}

fn has_zero(t: &TimeoutSettings) -> bool { [t.get_read(), t.get_write(), t.get_connect()].iter().any(|d| d.map(|d| d.is_zero()).unwrap_or(false)) }

#[derive(Debug, Clone, Copy, PartialEq, Eq)]
enum Path {
    New,
    Clap,
    Serde,
}

/// construct through a path; Ok(settings) | Err(description of the rejection)
fn construct(path: Path, r: D, w: D, c: D, retries: usize) -> Option<Result<TimeoutSettings, String>> {
    match path {
        Path::New => Some(TimeoutSettings::new(dur(r), dur(w), dur(c), retries).map_err(|e| format!("{:?}", e.kind))),
        Path::Clap => {
            // whole seconds only: None = flag absent (default 4 s); 1 ns / 1 ms are not expressible
            let mut args: Vec<String> = vec!["w".into()];
            for (flag, d) in [("--read-timeout", r), ("--write-timeout", w), ("--connect-timeout", c)] {
                match d {
                    D::None => {}
                    D::Zero => args.extend([flag.to_string(), "0".into()]),
                    D::Ns1 | D::Ms1 => args.extend([flag.to_string(), "1".into()]),
                    D::Max => args.extend([flag.to_string(), u64::MAX.to_string()]),
                }
            }
            args.extend(["--retries".to_string(), retries.to_string()]);
            Some(Wrapper::try_parse_from(args).map(|w| w.timeouts).map_err(|e| format!("clap: {}", e.kind())))
        }
        Path::Serde => {
            let f = |d: D| match dur(d) {
                None => "null".to_string(),
                Some(x) => format!("{{\"secs\":{},\"nanos\":{}}}", x.as_secs(), x.subsec_nanos()),
            };
            let js = format!("{{\"connect\":{},\"read\":{},\"write\":{},\"retries\":{}}}", f(c), f(r), f(w), retries);
            Some(serde_json::from_str::<TimeoutSettings>(&js).map_err(|e| format!("serde: {e}")))
        }
    }
}

impl C18 {
    pub fn new() -> Self {
        // one representative entry point per protocol family plus the generic dispatch of a few games
        let mut seen = std::collections::HashSet::new();
        let eps: Vec<Ep> = all_eps().into_iter().filter(|e| !matches!(e, Ep::Generic(_)) || seen.insert(ep_family(e))).filter(|e| !matches!(e, Ep::ValveGame(_) | Ep::Battalion | Ep::McAutoGame)).collect();
        Self { eps }
    }

    fn use_settings(&self, cx: &mut Cx, ts: TimeoutSettings, label: &str) {
        let lbl = label.to_string();
        // (a) real sockets on loopback
        let (o, _) = guarded(|| {
            let udp_peer = std::net::UdpSocket::bind("127.0.0.1:0").ok()?;
            let ua = udp_peer.local_addr().ok()?;
            let mut u = UdpSocketImpl::new(&ua, &Some(ts)).ok()?;
            let _ = u.send(b"x");
            let listener = std::net::TcpListener::bind("127.0.0.1:0").ok()?;
            let ta = listener.local_addr().ok()?;
            let t = TcpSocketImpl::new(&ta, &Some(ts));
            let _ = t.map(|mut t| t.send(b"y"));
            Some(())
        });
        cx.eval();
        match o {
            Outcome::Panicked(p) => {
                cx.violation(format!("C18 panic real-socket at {} msg=\"{}\"", p.loc, norm_msg(&p.msg)), || json!({"settings": lbl, "panic": p.msg}));
                return;
            }
            Outcome::Returned(None) => cx.inconclusive("loopback sockets unavailable"),
            _ => cx.count("real-socket-constructions"),
        }
        // (b) one scripted query per entry point against a valid, a malformed and a silent server
        for ep in &self.eps {
            let mut rng = Rng::for_case(7, "c18-seed", hash64(ep_name(ep).as_bytes()));
            let mut s = Settings::fixed();
            s.ts_override = Some(ts);
            let seed_settings = Settings::fixed();
            let (valid, _) = record_seed(ep, &seed_settings, &mut rng);
            let malformed: Vec<Vec<Vec<u8>>> = valid.iter().map(|c| c.iter().map(|d| d[.. d.len() / 2].to_vec()).collect()).collect();
            for (kind, script) in [("valid", valid.clone()), ("malformed", malformed), ("silent", vec![])] {
                let obs = execute(ep, &s, &script, 10_000);
                cx.eval();
                match &obs.outcome {
                    Outcome::Panicked(p) => cx.violation(format!("C18 panic at {} msg=\"{}\" retries-class={}", p.loc, norm_msg(&p.msg), if ts.get_retries() >= usize::MAX - 1 { "huge" } else { "small" }), || json!({"settings": lbl, "entry_point": ep_name(ep), "server": kind, "panic": p.msg})),
                    Outcome::StepLimit { .. } => cx.count("cut-at-step-limit (not a verdict)"),
                    Outcome::Returned(_) => cx.count(&format!("query-returned|{kind}")),
                }
            }
        }
    }
}

impl Check for C18 {
    fn id(&self) -> &'static str { "C18" }
    fn rule(&self) -> String {
        "exhaustive grid: (read, write, connect) in {None, 0, 1 ns, 1 ms, u64::MAX s}^3 x retries in {0, 1, 2, usize::MAX-1, usize::MAX} x construction path {TimeoutSettings::new, a clap Parser flattening TimeoutSettings (whole seconds), serde_json} + Default. Oracle 1: any zero duration is rejected on every path (InvalidInput / parse error) and no path yields a value containing a zero duration. Oracle 2: every accepted value constructs real UdpSocketImpl/TcpSocketImpl on loopback, runs one scripted query of every protocol entry point against a valid, a malformed and a silent server (runs cut by the step monitor at 10 000 operations are counted, not judged), and Eco over loopback HTTP, without a panic; the CLI is run with zero/huge timeout flags and must not exit with a panic. Oracle 3: 27 spellings of numbers (00, +0, -0, 0x0, 0.0, non-ASCII digits, 2^64, ...) on each of the three clap flags: accepted => non-zero and usable. Oracle 4: the retry helper with 10^4 / 3*10^5 / 3*10^6 retries against attempts that fail at once returns the timeout-class error after retries+1 calls on a 2 MiB thread stack. non-trivial = a configuration whose verdicts were reached; distinct by (path, grid point)".into()
    }
    fn assumptions(&self) -> Vec<String> { vec!["clap expresses whole seconds only: 1 ns / 1 ms map to 1 s and None to an absent flag".into(), "serde input uses serde's {secs, nanos} Duration form".into()] }
    fn total_cases(&self, _tier: Tier) -> u64 { 125 * 5 * 3 + 4 }
    fn exhaustive(&self, _tier: Tier) -> Option<bool> { Some(true) }
    fn level(&self) -> &'static str { "exploration" }
    fn run_case(&mut self, cx: &mut Cx) {
        let idx = cx.idx;
        if idx == 125 * 5 * 3 {
            // Default
            let ts = TimeoutSettings::default();
            if has_zero(&ts) {
                cx.violation("C18 default contains zero duration", || json!({}));
            }
            self.use_settings(cx, ts, "Default");
            cx.nontrivial(0xdef);
            return;
        }
        if idx == 125 * 5 * 3 + 1 {
            self.cli_and_eco(cx);
            return;
        }
        if idx == 125 * 5 * 3 + 2 {
            self.clap_spellings(cx);
            return;
        }
        if idx == 125 * 5 * 3 + 3 {
            self.many_retries(cx);
            return;
        }
        let path = [Path::New, Path::Clap, Path::Serde][(idx % 3) as usize];
        let g = idx / 3;
        let (r, w, c) = (DS[(g % 5) as usize], DS[((g / 5) % 5) as usize], DS[((g / 25) % 5) as usize]);
        let retries = RETRIES[((g / 125) % 5) as usize];
        let label = format!("{path:?}|read={r:?}|write={w:?}|connect={c:?}|retries={retries}");
        let any_zero = [r, w, c].contains(&D::Zero);
        cx.eval();
        let (o, _) = guarded(|| construct(path, r, w, c, retries));
        match o {
            Outcome::Panicked(p) => cx.violation(format!("C18 panic constructing via {path:?} at {}", p.loc), || json!({"case": label, "panic": p.msg})),
            Outcome::StepLimit { .. } => {}
            Outcome::Returned(None) => {}
            Outcome::Returned(Some(res)) => {
                cx.shape(&format!("{path:?}"));
                match (any_zero, res) {
                    (true, Err(why)) => {
                        if path == Path::New && why != "InvalidInput" {
                            cx.violation("C18 zero-duration rejected with the wrong kind", || json!({"case": label, "error": why}));
                        } else {
                            cx.nontrivial(hash64(label.as_bytes()));
                            cx.count("zero-rejected");
                        }
                    }
                    (true, Ok(ts)) => {
                        let which = if r == D::Zero { "read" } else if w == D::Zero { "write" } else { "connect" };
                        cx.violation(format!("C18 zero-duration accepted path={path:?} field={which}"), || json!({"case": label, "value": format!("{ts:?}")}));
                        // and what using it does (evidence of why it matters)
                        let lbl = label.clone();
                        let (o, _) = guarded(|| {
                            let peer = std::net::UdpSocket::bind("127.0.0.1:0").ok()?;
                            UdpSocketImpl::new(&peer.local_addr().ok()?, &Some(ts)).ok().map(|_| ())
                        });
                        if let Outcome::Panicked(p) = o {
                            cx.violation(format!("C18 panic using accepted zero duration path={path:?} at {}", p.loc), || json!({"case": lbl, "panic": p.msg}));
                        }
                    }
                    (false, Err(why)) => {
                        // u64::MAX seconds may legitimately overflow a parser's range: only the constructor must accept it
                        if path == Path::New {
                            cx.violation("C18 valid settings rejected", || json!({"case": label, "error": why}));
                        } else {
                            cx.observe(&format!("{path:?} rejected a non-zero configuration: {why}"));
                        }
                    }
                    (false, Ok(ts)) => {
                        if has_zero(&ts) {
                            cx.violation(format!("C18 path={path:?} produced a zero duration"), || json!({"case": label, "value": format!("{ts:?}")}));
                        } else {
                            cx.count("accepted");
                            // the expensive use-phase on a deterministic subset (all retries classes, all paths, durations None/1ns/Max mixes)
                            if (g % 125) % 7 == 0 || matches!((r, w, c), (D::Ns1, D::Ns1, D::Ns1) | (D::Max, D::Max, D::Max) | (D::None, D::None, D::None)) {
                                self.use_settings(cx, ts, &label);
                                cx.count("accepted-and-used");
                            }
                            cx.nontrivial(hash64(label.as_bytes()));
                            cx.sample(|| json!({"case": label, "value": format!("{ts:?}")}));
                        }
                    }
                }
            }
        }
    }
    fn sufficient(&self, _tier: Tier, m: &Stats) -> Result<(), String> {
        if m.counters.get("accepted-and-used").copied().unwrap_or(0) < 50 {
            return Err("fewer than 50 accepted configurations were exercised".into());
        }
        Ok(())
    }
    fn extra_coverage(&self, _tier: Tier, m: &Stats) -> Value { json!({"clap_spellings_rejected": m.counters.get("clap-spelling-rejected"), "clap_spellings_accepted_non_zero": m.counters.get("clap-spelling-accepted-non-zero"), "many_retries_ok": m.counters.get("many-retries-ok"), "grid_points": 125 * 5 * 3, "zero_rejected": m.counters.get("zero-rejected"), "accepted": m.counters.get("accepted"), "accepted_and_used": m.counters.get("accepted-and-used"), "cut_at_step_limit": m.counters.get("cut-at-step-limit (not a verdict)")}) }
    fn budget_s(&self, tier: Tier) -> u64 { tier.pick(120, 600) }
}

impl C18 {
    /// every way of writing a number that the flag parser may accept: whatever it accepts is a non-zero duration that
    /// can be used
    fn clap_spellings(&self, cx: &mut Cx) {
        let spellings = ["0", "00", "+0", "+00", "-0", "0000000000000000000000", " 0", "0 ", "0x0", "0.0", "0e0", ".0", "0_0", "1", "01", "+1", "001", "18446744073709551615", "18446744073709551616", "+18446744073709551615", "1e3", "1.5", "\u{0660}", "\u{ff10}", "", "nan", "inf"];
        for flag in ["--read-timeout", "--write-timeout", "--connect-timeout"] {
            for sp in spellings {
                let args: Vec<String> = vec!["w".into(), format!("{flag}={sp}")];
                let label = format!("Clap|{flag}={sp:?}");
                let (o, _) = guarded(|| Wrapper::try_parse_from(args.clone()).map(|w| w.timeouts).map_err(|e| format!("clap: {}", e.kind())));
                cx.eval();
                match o {
                    Outcome::Panicked(p) => cx.violation(format!("C18 panic constructing via Clap at {}", p.loc), || json!({"case": label, "panic": p.msg})),
                    Outcome::Returned(Err(_)) => {
                        cx.count("clap-spelling-rejected");
                        cx.nontrivial(hash64(label.as_bytes()));
                    }
                    Outcome::Returned(Ok(ts)) => {
                        if has_zero(&ts) {
                            cx.violation(format!("C18 zero-duration accepted path=Clap field={} spelling=non-canonical", flag.trim_start_matches("--").trim_end_matches("-timeout")), || json!({"case": label, "value": format!("{ts:?}")}));
                            let (o, _) = guarded(|| {
                                let peer = std::net::UdpSocket::bind("127.0.0.1:0").ok()?;
                                UdpSocketImpl::new(&peer.local_addr().ok()?, &Some(ts)).ok().map(|_| ())
                            });
                            if let Outcome::Panicked(p) = o {
                                cx.violation(format!("C18 panic using accepted zero duration path=Clap at {}", p.loc), || json!({"case": label, "panic": p.msg}));
                            }
                        } else {
                            cx.count("clap-spelling-accepted-non-zero");
                            cx.nontrivial(hash64(label.as_bytes()));
                        }
                    }
                    _ => {}
                }
            }
        }
    }

    /// a large retry count with a peer that fails every attempt at once: the retry helper must come back with the
    /// timeout-class error, on an ordinary 2 MiB thread stack (a crash here takes the worker down and is attributed
    /// to this case by the supervisor)
    fn many_retries(&self, cx: &mut Cx) {
        use gamedig::verif_hook::retry_on_timeout;
        for n in [10_000usize, 300_000, 3_000_000] {
            let h = std::thread::Builder::new().stack_size(2 << 20).spawn(move || {
                let mut calls = 0u64;
                let r: gamedig::GDResult<()> = retry_on_timeout(n, || {
                    calls += 1;
                    Err(GDErrorKind::PacketReceive.into())
                });
                (r.map_err(|e| e.kind), calls)
            });
            let Ok(h) = h else { return cx.inconclusive("cannot spawn a thread") };
            cx.eval();
            match h.join() {
                Ok((Err(GDErrorKind::PacketReceive), calls)) if calls == n as u64 + 1 => {
                    cx.count("many-retries-ok");
                    cx.nontrivial(hash64(&n.to_le_bytes()));
                }
                Ok((r, calls)) => cx.violation("C18 retry helper wrong outcome with many retries", || json!({"retries": n, "calls": calls, "result": format!("{r:?}")})),
                Err(_) => cx.violation("C18 panic in the retry helper with many retries", || json!({"retries": n})),
            }
        }
    }

    fn cli_and_eco(&self, cx: &mut Cx) {
        // Eco with extreme settings over loopback HTTP
        for (r, w, c, retries) in [(D::Ns1, D::Ns1, D::Ns1, 0usize), (D::Max, D::Max, D::Max, usize::MAX), (D::Ms1, D::None, D::Max, 2)] {
            let Ok(ts) = TimeoutSettings::new(dur(r), dur(w), dur(c), retries) else { continue };
            let st = EcoState::gen(&mut cx.rng);
            let body = st.body(&mut cx.rng, None);
            let Ok((port, h)) = http_once(body.into_bytes(), false) else {
                cx.inconclusive("eco: cannot bind loopback listener");
                continue;
            };
            let lo = IpAddr::V4(Ipv4Addr::LOCALHOST);
            let (o, _) = guarded(|| gamedig::games::eco::query_with_timeout(&lo, Some(port), &Some(ts)).map(|_| ()).map_err(|e| e.kind));
            cx.eval();
            // unblock the listener thread if the client never connected
            let _ = std::net::TcpStream::connect_timeout(&SocketAddr::new(lo, port), Duration::from_millis(200));
            let _ = h.join();
            match o {
                Outcome::Panicked(p) => cx.violation(format!("C18 panic eco at {} msg=\"{}\"", p.loc, norm_msg(&p.msg)), || json!({"settings": format!("{ts:?}"), "panic": p.msg})),
                _ => {
                    cx.count("eco-used");
                    cx.nontrivial(hash64(format!("eco{ts:?}").as_bytes()));
                }
            }
        }
        // the real CLI flags
        let cli = verif_root().join(".work/cli-target/debug/gamedig_cli");
        if !cli.exists() {
            cx.inconclusive("gamedig_cli binary not built (run ./check build)");
            return;
        }
        // a closed UDP port on loopback: the query fails fast or times out after 1 s
        for (flag, val) in [("--read-timeout", "0"), ("--write-timeout", "0"), ("--connect-timeout", "0"), ("--read-timeout", "18446744073709551615"), ("--retries", "18446744073709551615"), ("--read-timeout", "1")] {
            let mut cmd = std::process::Command::new(&cli);
            cmd.args(["query", "-g", "q3a", "-i", "127.0.0.1", "-p", "9", flag, val]);
            if flag != "--read-timeout" {
                cmd.args(["--read-timeout", "1"]);
            }
            let out = match crate::core::proc::run(cmd, Duration::from_secs(6)) {
                Ok(o) => o,
                Err(_) => {
                    cx.inconclusive("cannot run gamedig_cli");
                    return;
                }
            };
            if out.timed_out {
                // e.g. 2^64 retries against a port that refuses at once: as asked for, cut by the harness, not a verdict
                cx.count("cli-invocations-cut-after-6s (not a verdict)");
                continue;
            }
            cx.eval();
            let stderr = String::from_utf8_lossy(&out.stderr).to_string();
            let code = out.code;
            if code == Some(101) || stderr.contains("panicked at") {
                cx.violation(format!("C18 cli panic flag={flag} value-class={}", if val == "0" { "zero" } else { "huge" }), || json!({"flag": flag, "value": val, "exit": code, "stderr": stderr.chars().take(600).collect::<String>()}));
            } else if val == "0" && flag != "--retries" && code == Some(0) {
                cx.violation(format!("C18 cli accepted zero duration flag={flag}"), || json!({"flag": flag, "exit": code}));
            } else {
                cx.count("cli-invocations-clean");
                cx.nontrivial(hash64(format!("cli{flag}{val}").as_bytes()));
            }
        }
    }
}

pub fn _k(_: GDErrorKind) {}
pub fn _c(e: &Ep, s: &Settings) { let _ = call(e, s); }
