//! C07 — single-game protocols and the HTTP/JSON game map every field.

use crate::core::framework::{Check, Cx, Stats, Tier};
use crate::core::monitor::{guarded, kind_name, norm_msg, run_with, Outcome, DEFAULT_STEP_LIMIT};
use crate::core::net::hex;
use crate::core::rng::hash64;
use crate::models::gamespy::{Gs3Server, OneShotUdp};
use crate::models::misc::*;
use crate::models::valve::{self as vm, A2sServer};
use crate::props::c02::build;
use gamedig::games::{battalion1944, eco, ffow, jc2m, mindustry, savage2, theship};
use gamedig::protocols::valve::{game, Engine};
use serde_json::{json, Value};
use std::net::{IpAddr, Ipv4Addr};

pub struct C07;

fn ip() -> IpAddr { IpAddr::V4(Ipv4Addr::new(10, 7, 7, 7)) }

macro_rules! verdict {
    ($cx:expr, $game:expr, $outcome:expr, $exp:expr, $hash:expr, $detail:expr) => {{
        let detail = $detail;
        match $outcome {
            Outcome::Returned(Ok(got)) => {
                if got == $exp {
                    $cx.count(concat!($game, "-ok"));
                    $cx.nontrivial($hash);
                    $cx.sample(|| json!({"game": $game, "case": detail()}));
                } else {
                    $cx.violation(format!("C07 {} wrong-field", $game), || json!({"game": $game, "got": format!("{:?}", got), "expected": format!("{:?}", $exp), "case": detail()}));
                }
            }
            Outcome::Returned(Err(e)) => $cx.violation(format!("C07 {} valid-reply-rejected kind={}", $game, kind_name(&e.kind)), || json!({"game": $game, "error": format!("{:?}", e.kind), "case": detail()})),
            Outcome::Panicked(p) => $cx.violation(format!("C07 panic at {} msg=\"{}\"", p.loc, norm_msg(&p.msg)), || json!({"game": $game, "panic": p.msg, "case": detail()})),
            Outcome::StepLimit { .. } => $cx.violation(format!("C07 {} step-limit", $game), || json!({"game": $game, "case": detail()})),
        }
    }};
}

impl C07 {
    fn ffow(&self, cx: &mut Cx) {
        let st = FfowState::gen(&mut cx.rng);
        let d = st.datagram();
        let port = cx.rng.bool().then(|| cx.rng.range(1, 65535) as u16);
        let ts = gamedig::TimeoutSettings::new(None, None, None, cx.rng.below(2) as usize).ok();
        let server = FfowServer { reply: d.clone(), challenge: st.challenge, issued: false, requests: vec![], errors: vec![] };
        cx.eval();
        cx.shape(&format!("ffow|challenge={}", st.challenge.is_some()));
        let run = run_with(server, DEFAULT_STEP_LIMIT, || ffow::query_with_timeout(&ip(), port, ts));
        verdict!(cx, "ffow", run.outcome, st.expected(), hash64(&d), || json!({"datagram": hex(&d), "challenge": st.challenge.map(|c| hex(&c))}));
    }

    fn savage2(&self, cx: &mut Cx) {
        let st = Savage2State::gen(&mut cx.rng);
        let d = st.datagram();
        cx.eval();
        if d.len() > 1024 {
            cx.observe("savage2 reply larger than 1024 bytes");
            return;
        }
        cx.shape("savage2");
        let run = run_with(OneShotUdp::new(&[0x01], vec![d.clone()]), DEFAULT_STEP_LIMIT, || savage2::query_with_timeout(&ip(), None, None));
        verdict!(cx, "savage2", run.outcome, st.r, hash64(&d), || json!({"datagram": hex(&d)}));
    }

    fn jc2m(&self, cx: &mut Cx) {
        let np = match cx.rng.below(6) {
            0 => 0,
            1 => 1,
            2 => 100,
            _ => cx.rng.usize(0, 30),
        };
        let st = Jc2mState::gen(&mut cx.rng, np);
        let d = st.datagram(&mut cx.rng);
        cx.eval();
        if d.len() > 2048 {
            cx.observe("jc2m reply larger than 2048 bytes");
            return;
        }
        cx.shape(&format!("jc2m|np={}|num={}", np.min(9), st.numplayers.is_some()));
        let mut server = Gs3Server::new(&cx.rng.below(1 << 31).to_string(), vec![d.clone()]);
        server.payload = [0xff, 0xff, 0xff, 0x02];
        let ts = gamedig::TimeoutSettings::new(None, None, None, cx.rng.below(2) as usize).ok();
        let run = run_with(server, DEFAULT_STEP_LIMIT, || jc2m::query_with_timeout(&ip(), None, ts));
        if np > 0 {
            cx.count("jc2m-states-with-players");
        }
        verdict!(cx, "jc2m", run.outcome, st.expected(), hash64(&d), || json!({"datagram": hex(&d)}));
    }

    fn mindustry(&self, cx: &mut Cx) {
        let mut st = MindustryState::gen(&mut cx.rng);
        // the largest reply the protocol allows is 500 bytes: drive that size and its neighbour exactly
        if cx.rng.chance(1, 8) {
            let target = *cx.rng.pick(&[500usize, 499, 498]);
            let mut turn = 0;
            while st.datagram().len() < target && turn < 2000 {
                let f = match turn % 3 {
                    0 => &mut st.d.description,
                    1 => &mut st.d.host,
                    _ => &mut st.d.map,
                };
                if f.len() < 250 {
                    f.push('x');
                }
                turn += 1;
            }
            if st.datagram().len() == target {
                cx.count(&format!("mindustry-reply-of-exactly-{target}-bytes"));
            }
        }
        let d = st.datagram();
        cx.eval();
        if d.len() > 500 {
            cx.observe("mindustry reply larger than 500 bytes");
            return;
        }
        cx.shape(&format!("mindustry|mode={}|modename={}", st.mode_byte, st.d.mode_name.is_some()));
        let ts = gamedig::TimeoutSettings::new(None, None, None, cx.rng.below(2) as usize).ok();
        let run = run_with(OneShotUdp::new(&[0xfe, 0x01], vec![d.clone()]), DEFAULT_STEP_LIMIT, || mindustry::query(&ip(), None, &ts));
        verdict!(cx, "mindustry", run.outcome, st.d, hash64(&d), || json!({"datagram": hex(&d)}));
    }

    fn theship(&self, cx: &mut Cx) {
        let engine = Engine::new(2400);
        let np = cx.rng.usize(0, 20);
        let nr = cx.rng.usize(0, 20);
        let mut b = build(&mut cx.rng, &engine, 2400, np, nr, false);
        let st = b.state.clone();
        let server = std::mem::replace(&mut b.server, A2sServer::new(vec![], vec![], vec![]));
        cx.eval();
        cx.shape(&format!("theship|np={}|edf={:?}", np.min(5), st.edf));
        let run = run_with(server, DEFAULT_STEP_LIMIT, || theship::query_with_timeout(&ip(), None, None));
        let vexp = st.expected(true, true);
        let ed = vexp.info.extra_data.clone();
        let exp = theship::Response {
            protocol_version: st.protocol,
            name: st.name.clone(),
            map: st.map.clone(),
            game_mode: st.game.clone(),
            game_version: st.version.clone(),
            players: st.players.iter().map(|p| theship::TheShipPlayer { name: p.name.clone(), score: p.score, duration: f32::from_bits(p.duration_bits), deaths: p.deaths, money: p.money }).collect(),
            players_online: st.players_online,
            players_maximum: st.players_max,
            players_bots: st.bots,
            server_type: vexp.info.server_type,
            has_password: st.visibility == 1,
            vac_secured: st.vac == 1,
            port: ed.as_ref().and_then(|e| e.port),
            steam_id: ed.as_ref().and_then(|e| e.steam_id),
            tv_port: ed.as_ref().and_then(|e| e.tv_port),
            tv_name: ed.as_ref().and_then(|e| e.tv_name.clone()),
            keywords: ed.as_ref().and_then(|e| e.keywords.clone()),
            rules: st.expected_rules(),
            mode: st.ship_mode,
            witnesses: st.ship_witnesses,
            duration: st.ship_duration,
        };
        // NaN durations: compare through bit patterns
        let eq = |a: &theship::Response, b: &theship::Response| {
            let strip = |r: &theship::Response| {
                let mut r = r.clone();
                let bits: Vec<u32> = r.players.iter().map(|p| p.duration.to_bits()).collect();
                for p in r.players.iter_mut() {
                    p.duration = 0.0;
                }
                (r, bits)
            };
            strip(a) == strip(b)
        };
        let info_hex = hex(&st.info_message());
        match run.outcome {
            Outcome::Returned(Ok(got)) => {
                if eq(&got, &exp) {
                    cx.count("theship-ok");
                    cx.nontrivial(hash64(&st.info_message()) ^ hash64(&st.players_message()));
                } else {
                    cx.violation("C07 theship wrong-field", || json!({"game": "theship", "got": format!("{got:?}"), "expected": format!("{exp:?}"), "info": info_hex}));
                }
            }
            Outcome::Returned(Err(e)) => cx.violation(format!("C07 theship valid-reply-rejected kind={}", kind_name(&e.kind)), || json!({"error": format!("{:?}", e.kind), "info": info_hex})),
            Outcome::Panicked(p) => cx.violation(format!("C07 panic at {} msg=\"{}\"", p.loc, norm_msg(&p.msg)), || json!({"panic": p.msg, "info": info_hex})),
            Outcome::StepLimit { .. } => cx.violation("C07 theship step-limit", || json!({"info": info_hex})),
        }
    }

    fn battalion(&self, cx: &mut Cx) {
        let engine = Engine::new(489_940);
        let np = cx.rng.usize(0, 12);
        let nr = cx.rng.usize(0, 10);
        let mut b = build(&mut cx.rng, &engine, 489_940, np, nr, false);
        // add a random subset of the Battalion rules to the state (and re-encode rules)
        let mut st = b.state.clone();
        st.rules.retain(|(k, _)| !k.starts_with("bat_"));
        let mask = cx.rng.below(64);
        let bat_max = cx.rng.b_u8();
        let bat_count = cx.rng.b_u8();
        let bat_pw = *cx.rng.pick(&["Y", "N", "y", ""]);
        let bat_name = cx.rng.text(20, &[]);
        let bat_mode = cx.rng.text(10, &[]);
        let bat_map = cx.rng.text(10, &[]);
        let all = [("bat_max_players_i", bat_max.to_string()), ("bat_player_count_s", bat_count.to_string()), ("bat_has_password_s", bat_pw.to_string()), ("bat_name_s", bat_name.clone()), ("bat_gamemode_s", bat_mode.clone()), ("bat_map_s", bat_map.clone())];
        for (i, (k, v)) in all.iter().enumerate() {
            if mask & (1 << i) != 0 {
                st.rules.push((k.to_string(), v.clone()));
            }
        }
        let rules_d = vm::encode(&mut cx.rng, &st.rules_message(), b.encs[2], false, None);
        // fragments must still fit the receive buffer
        if rules_d.iter().any(|d| d.len() > 6000) {
            cx.observe("battalion rules datagram too large after adding overrides");
            return;
        }
        b.server.plan[2] = vec![vm::Behaviour::Answer(rules_d)];
        let server = std::mem::replace(&mut b.server, A2sServer::new(vec![], vec![], vec![]));
        cx.eval();
        cx.shape(&format!("battalion1944|overrides={mask:06b}"));
        let run = run_with(server, DEFAULT_STEP_LIMIT, || battalion1944::query(&ip(), None));
        // expectation: valve response, overrides applied, consumed rules removed, then the game projection
        let mut v = st.expected(true, true);
        {
            let rules = v.rules.as_mut().unwrap();
            if mask & 1 != 0 {
                v.info.players_maximum = bat_max;
                rules.remove("bat_max_players_i");
            }
            if mask & 2 != 0 {
                v.info.players_online = bat_count;
                rules.remove("bat_player_count_s");
            }
            if mask & 4 != 0 {
                v.info.has_password = bat_pw == "Y";
                rules.remove("bat_has_password_s");
            }
            if mask & 8 != 0 {
                v.info.name = bat_name.clone();
                rules.remove("bat_name_s");
            }
            if mask & 16 != 0 {
                v.info.game_mode = bat_mode.clone();
                rules.remove("bat_gamemode_s");
            }
            rules.remove("bat_map_s");
        }
        let exp = crate::models::valve::project_game(&v);
        let info_hex = hex(&st.info_message());
        match run.outcome {
            Outcome::Returned(Ok(got)) => {
                let same = {
                    let mut a = got.clone();
                    let mut e = exp.clone();
                    let ab: Vec<u32> = a.players_details.iter().map(|p| p.duration.to_bits()).collect();
                    let eb: Vec<u32> = e.players_details.iter().map(|p| p.duration.to_bits()).collect();
                    for p in a.players_details.iter_mut().chain(e.players_details.iter_mut()) {
                        p.duration = 0.0;
                    }
                    a == e && ab == eb
                };
                if same {
                    cx.count("battalion1944-ok");
                    cx.nontrivial(hash64(&st.info_message()) ^ hash64(&st.rules_message()));
                } else {
                    cx.violation("C07 battalion1944 wrong-field", || json!({"got": format!("{got:?}"), "expected": format!("{exp:?}"), "overrides_mask": mask}));
                }
            }
            Outcome::Returned(Err(e)) => cx.violation(format!("C07 battalion1944 valid-reply-rejected kind={}", kind_name(&e.kind)), || json!({"error": format!("{:?}", e.kind), "info": info_hex, "overrides_mask": mask})),
            Outcome::Panicked(p) => cx.violation(format!("C07 panic at {} msg=\"{}\"", p.loc, norm_msg(&p.msg)), || json!({"panic": p.msg})),
            Outcome::StepLimit { .. } => cx.violation("C07 battalion1944 step-limit", || json!({})),
        }
    }

    fn eco(&self, cx: &mut Cx) {
        let mut st = EcoState::gen(&mut cx.rng);
        // a busy server: replies of 6-40 kB (more than any default buffer size), Content-Length or chunked
        let big = cx.rng.chance(1, 5);
        if big {
            let n = cx.rng.usize(250, 1500);
            for _ in 0 .. n {
                let name = cx.rng.text(16, &['\u{0}']);
                st.r.players.push(gamedig::games::eco::Player { name });
            }
        }
        let drop = cx.rng.chance(1, 6).then(|| cx.rng.usize(0, 36));
        let body = st.body(&mut cx.rng, drop);
        let chunked = cx.rng.bool();
        cx.eval();
        let (port, h) = match http_once(body.clone().into_bytes(), chunked) {
            Ok(x) => x,
            Err(_) => {
                cx.inconclusive("eco: could not bind a loopback listener");
                return;
            }
        };
        let ts = gamedig::TimeoutSettings::new(Some(std::time::Duration::from_secs(5)), Some(std::time::Duration::from_secs(5)), Some(std::time::Duration::from_secs(5)), 0).ok();
        let lo = IpAddr::V4(Ipv4Addr::LOCALHOST);
        let (out, _a) = guarded(|| eco::query_with_timeout(&lo, Some(port), &ts));
        let req = h.join().unwrap_or_default();
        cx.shape(&format!("eco|chunked={chunked}|dropped={}|body>5kB={}", drop.is_some(), body.len() > 5012));
        if !req.starts_with("GET /frontpage HTTP/1.1\r\n") {
            cx.violation("C07 eco unexpected-request", || json!({"request": req}));
            return;
        }
        match (drop, out) {
            (None, Outcome::Returned(Ok(got))) => {
                let same = {
                    let f = |r: &eco::Response| [r.time_since_start.to_bits(), r.time_left.to_bits(), r.shelf_life_multiplier.to_bits(), r.exhaustion_after_hours.to_bits()];
                    got == st.r && f(&got) == f(&st.r)
                };
                if same {
                    cx.count("eco-ok");
                    cx.nontrivial(hash64(body.as_bytes()));
                    cx.sample(|| json!({"game": "eco", "chunked": chunked, "body": body.chars().take(300).collect::<String>()}));
                } else {
                    cx.violation("C07 eco wrong-field", || json!({"got": format!("{got:?}"), "expected": format!("{:?}", st.r), "body": body}));
                }
            }
            (None, Outcome::Returned(Err(e))) => cx.violation(format!("C07 eco valid-reply-rejected kind={}", kind_name(&e.kind)), || json!({"error": format!("{e:?}"), "body": body})),
            (Some(i), Outcome::Returned(Ok(_))) => cx.violation("C07 eco fabricated-missing-member", || json!({"dropped_member_index": i, "body": body})),
            (Some(_), Outcome::Returned(Err(_))) => {
                cx.count("eco-missing-member-rejected");
                cx.nontrivial(hash64(body.as_bytes()));
            }
            (_, Outcome::Panicked(p)) => cx.violation(format!("C07 panic at {} msg=\"{}\"", p.loc, norm_msg(&p.msg)), || json!({"panic": p.msg, "body": body})),
            (_, Outcome::StepLimit { .. }) => {}
        }
    }
}

const GAMES: [&str; 7] = ["ffow", "savage2", "jc2m", "mindustry", "theship", "battalion1944", "eco"];

impl Check for C07 {
    fn id(&self) -> &'static str { "C07" }
    fn memcheck_plan(&self, tier: Tier) -> Option<(crate::core::framework::MemMode, Vec<(u64, u64)>)> {
        if tier != Tier::Thorough {
            return None;
        }
        let total = self.total_cases(tier);
        let n = 300u64.min(total / 16);
        Some((crate::core::framework::MemMode::Harness, (0 .. 16).map(|i| (i * (total / 16), n)).collect()))
    }
    fn rule(&self) -> String {
        "random well-formed replies of the seven formats (FFOW with/without challenge, Savage 2, JC2-MP with 0-100 players, Mindustry with/without trailing mode name, The Ship, Battalion 1944 with every subset of its six rule overrides, Eco /frontpage JSON over a real loopback HTTP server, Content-Length and chunked, bodies up to ~40 kB) must come back field for field; an Eco reply lacking a member must be an error, not a fabricated value. non-trivial = Ok and equal (or the missing member rejected); distinct by reply bytes".into()
    }
    fn assumptions(&self) -> Vec<String> {
        vec![
            "formats as in DESIGN.md Appendix A.8 (implementation-defined except Mindustry and Eco)".into(),
            "replies larger than the client's receive size for that game (1024 / 2048 / 500 bytes) are observe-only".into(),
            "Eco runs on real loopback sockets through ureq; the other six use the scripted transport".into(),
        ]
    }
    fn total_cases(&self, tier: Tier) -> u64 { tier.pick(210_000, 1_000_000) }
    fn run_case(&mut self, cx: &mut Cx) {
        // Eco needs real sockets (~1 ms): one in 40 cases
        let slot = cx.idx % 40;
        match slot {
            39 => self.eco(cx),
            _ => match slot % 6 {
                0 => self.ffow(cx),
                1 => self.savage2(cx),
                2 => self.jc2m(cx),
                3 => self.mindustry(cx),
                4 => self.theship(cx),
                _ => self.battalion(cx),
            },
        }
    }
    fn sufficient(&self, _tier: Tier, m: &Stats) -> Result<(), String> {
        for g in GAMES {
            let n = m.counters.get(&format!("{g}-ok")).copied().unwrap_or(0);
            if n < 50 {
                return Err(format!("{g}: only {n} replies decoded and compared"));
            }
        }
        Ok(())
    }
    fn extra_coverage(&self, _tier: Tier, m: &Stats) -> Value { json!({"ok_per_game": GAMES.iter().map(|g| (g.to_string(), m.counters.get(&format!("{g}-ok")).copied().unwrap_or(0))).collect::<std::collections::BTreeMap<_, _>>()}) }
}
