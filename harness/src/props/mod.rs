use crate::core::framework::Check;

pub mod c17;

pub const ALL: &[&str] = &["C17"];

pub fn make(id: &str) -> Option<Box<dyn Check>> {
    match id {
        "C17" => Some(Box::new(c17::C17::new())),
        _ => None,
    }
}
