//! C14 — definition-driven, per-game and protocol-level queries agree.

use crate::core::framework::{Check, Cx, Stats, Tier};
use crate::core::monitor::{guarded, kind_name, norm_msg, run_with, Outcome, DEFAULT_STEP_LIMIT};
use crate::core::net::{hex, Ev, Net, Server};
use crate::core::rng::{hash64, Rng};
use crate::models::game_tables::{gamespy_game_query, quake_game_query, GAMESPY_GAMES, QUAKE_GAMES, UNREAL2_GAMES, VALVE_GAMES};
use crate::models::misc::{http_once, EcoState};
use crate::models::valve::{A2sServer, Behaviour};
use crate::props::c02::build;
use crate::props::hostile::{game_ids, seed_server, Ep};
use gamedig::games::minecraft::{LegacyGroup, Server as McKind};
use gamedig::protocols::gamespy::GameSpyVersion;
use gamedig::protocols::quake::QuakeVersion;
use gamedig::protocols::types::{CommonResponse, GenericResponse, ProprietaryProtocol, Protocol};
use gamedig::protocols::valve::{game, Engine};
use gamedig::protocols::{gamespy, quake, unreal2, valve};
use gamedig::{games, GDResult, Game};
use serde_json::{json, Value};
use std::net::{IpAddr, Ipv4Addr, SocketAddr};

pub struct C14;

#[derive(Debug, Clone, Copy, PartialEq, Eq)]
enum Beh {
    ValidMain,
    ValidDedicated,
    ValidForeign,
    PlayersSilent,
    RulesSilent,
    Malformed,
    Silence,
}
const BEHS: [Beh; 7] = [Beh::ValidMain, Beh::ValidDedicated, Beh::ValidForeign, Beh::PlayersSilent, Beh::RulesSilent, Beh::Malformed, Beh::Silence];

type R = Result<Value, String>;

/// strip the enum wrappers of GenericResponse's serialisation ({"Valve": {...}}, {"GameSpy": {"One": {...}}})
fn strip(v: Value) -> Value {
    let mut v = v;
    loop {
        match v {
            Value::Object(ref m) if m.len() == 1 && m.keys().next().map(|k| k.chars().next().map(|c| c.is_ascii_uppercase()).unwrap_or(false)).unwrap_or(false) => {
                let inner = m.values().next().cloned().unwrap();
                v = inner;
            }
            _ => return v,
        }
    }
}

fn common_value(r: &dyn CommonResponse, valve_projection: bool) -> Value {
    match r.as_original() {
        GenericResponse::Valve(v) if valve_projection => serde_json::to_value(crate::models::valve::project_game(v)).unwrap_or(Value::Null),
        other => strip(serde_json::to_value(other).unwrap_or(Value::Null)),
    }
}

/// sets are serialised in iteration order: sort them
fn canon(v: &mut Value) {
    match v {
        Value::Object(m) => {
            for (k, x) in m.iter_mut() {
                if k == "mutators" {
                    if let Value::Array(a) = x {
                        a.sort_by_key(|e| e.to_string());
                    }
                }
                canon(x);
            }
        }
        Value::Array(a) => a.iter_mut().for_each(canon),
        _ => {}
    }
}

fn as_r<T>(r: GDResult<T>, f: impl FnOnce(T) -> Value) -> R {
    r.map(|t| {
        let mut v = f(t);
        canon(&mut v);
        v
    })
    .map_err(|e| kind_name(&e.kind).to_string())
}

fn tv<T: serde::Serialize>(t: T) -> Value { serde_json::to_value(t).unwrap_or(Value::Null) }

/// the per-game module function for a definition (path B); None = unmapped
fn module_query(id: &str, g: &Game, ip: &IpAddr, port: Option<u16>) -> Option<R> {
    match &g.protocol {
        Protocol::Valve(_) => {
            if id == "battalion1944" {
                return Some(as_r(games::battalion1944::query(ip, port), tv));
            }
            let (_, _, f) = VALVE_GAMES.iter().find(|(_, pretty, _)| pretty.eq_ignore_ascii_case(g.name))?;
            Some(as_r(f(ip, port), tv))
        }
        Protocol::Unreal2 => {
            let (_, _, f) = UNREAL2_GAMES.iter().find(|(_, pretty, _)| *pretty == g.name)?;
            Some(as_r(f(ip, port), tv))
        }
        Protocol::Gamespy(_) => {
            let (m, _, _) = GAMESPY_GAMES.iter().find(|(_, pretty, _)| *pretty == g.name)?;
            Some(as_r(gamespy_game_query(m, ip, port)?, |b| common_value(b.as_ref(), false)))
        }
        Protocol::Quake(_) => {
            let (m, _, _) = QUAKE_GAMES.iter().find(|(_, pretty, _)| *pretty == g.name)?;
            Some(as_r(quake_game_query(m, ip, port)?, |b| common_value(b.as_ref(), false)))
        }
        Protocol::PROPRIETARY(p) => Some(match p {
            ProprietaryProtocol::TheShip => as_r(games::theship::query(ip, port), tv),
            ProprietaryProtocol::FFOW => as_r(games::ffow::query(ip, port), tv),
            ProprietaryProtocol::JC2M => as_r(games::jc2m::query(ip, port), tv),
            ProprietaryProtocol::Savage2 => as_r(games::savage2::query(ip, port), tv),
            ProprietaryProtocol::Mindustry => as_r(games::mindustry::query(ip, port, &None), tv),
            ProprietaryProtocol::Minecraft(None) => as_r(games::minecraft::query(ip, port), tv),
            ProprietaryProtocol::Minecraft(Some(McKind::Java)) => as_r(games::minecraft::query_java(ip, port, None), tv),
            ProprietaryProtocol::Minecraft(Some(McKind::Bedrock)) => as_r(games::minecraft::query_bedrock(ip, port), tv),
            ProprietaryProtocol::Minecraft(Some(McKind::Legacy(grp))) => as_r(games::minecraft::query_legacy_specific(*grp, ip, port), tv),
            _ => return None,
        }),
    }
}

/// the protocol's own query function with the definition's parameters (path C)
fn protocol_query(g: &Game, ip: &IpAddr, port: Option<u16>) -> Option<R> {
    let sa = SocketAddr::new(*ip, port.unwrap_or(g.default_port));
    Some(match &g.protocol {
        Protocol::Valve(e) => as_r(valve::query(&sa, *e, Some(g.request_settings.clone().into()), None), |r| tv(crate::models::valve::project_game(&r))),
        Protocol::Unreal2 => as_r(unreal2::query(&sa, &unreal2::GatheringSettings::default(), None), tv),
        Protocol::Gamespy(GameSpyVersion::One) => as_r(gamespy::one::query(&sa, None), tv),
        Protocol::Gamespy(GameSpyVersion::Two) => as_r(gamespy::two::query(&sa, None), tv),
        Protocol::Gamespy(GameSpyVersion::Three) => as_r(gamespy::three::query(&sa, None), tv),
        Protocol::Quake(QuakeVersion::One) => as_r(quake::one::query(&sa, None), tv),
        Protocol::Quake(QuakeVersion::Two) => as_r(quake::two::query(&sa, None), tv),
        Protocol::Quake(QuakeVersion::Three) => as_r(quake::three::query(&sa, None), tv),
        Protocol::PROPRIETARY(p) => match p {
            ProprietaryProtocol::TheShip => as_r(games::theship::query_with_timeout(ip, port, None), tv),
            ProprietaryProtocol::FFOW => as_r(games::ffow::query_with_timeout(ip, port, None), tv),
            ProprietaryProtocol::JC2M => as_r(games::jc2m::query_with_timeout(ip, port, None), tv),
            ProprietaryProtocol::Savage2 => as_r(games::savage2::query_with_timeout(ip, port, None), tv),
            ProprietaryProtocol::Mindustry => as_r(games::mindustry::protocol::query_with_retries(&sa, &None), tv),
            ProprietaryProtocol::Minecraft(None) => as_r(games::minecraft::protocol::query(&sa, None, None), tv),
            ProprietaryProtocol::Minecraft(Some(McKind::Java)) => as_r(games::minecraft::protocol::query_java(&sa, None, None), tv),
            ProprietaryProtocol::Minecraft(Some(McKind::Bedrock)) => as_r(games::minecraft::protocol::query_bedrock(&sa, None), tv),
            ProprietaryProtocol::Minecraft(Some(McKind::Legacy(grp))) => as_r(games::minecraft::protocol::query_legacy_specific(*grp, &sa, None), tv),
            _ => return None,
        },
    })
}

/// the same scripted server for all three paths: rebuilt from the same PRNG state each time
fn make_server(id: &str, g: &Game, beh: Beh, rng: &mut Rng) -> Box<dyn Server> {
    let idx = game_ids().iter().position(|x| *x == id).unwrap();
    match (&g.protocol, beh) {
        (_, Beh::Silence) => Box::new(crate::core::net::ScriptServer::new(vec![])),
        (_, Beh::Malformed) => {
            let mut s = crate::core::net::ScriptServer::new(vec![vec![vec![0xff, 0xff, 0xff, 0xff, 0x49, 0x11, 0x41], vec![0x00, 0x01]]]);
            s.repeat_last = true;
            Box::new(s)
        }
        (Protocol::Valve(engine), _) => {
            let (main, ded) = match engine {
                Engine::Source(Some((m, d))) => (*m, *d),
                _ => (70, None),
            };
            let appid = match beh {
                Beh::ValidDedicated => ded.unwrap_or(main),
                Beh::ValidForeign => main.wrapping_add(7) & 0xff_ffff,
                _ => main,
            };
            let mut b = build(rng, engine, appid, 3, 3, false);
            if id == "battalion1944" && rng.bool() {
                // the Battalion 1944 rule overrides are applied by its module only
                let mut st = b.state.clone();
                st.rules.push(("bat_name_s".into(), "Overridden name".into()));
                st.rules.push(("bat_max_players_i".into(), "12".into()));
                b.server.plan[2] = vec![Behaviour::Answer(vec![st.rules_message()])];
            }
            if id == "ror2" && rng.bool() {
                // Risk of Rain 2 servers send a rule named Test that the library drops for this game only
                let mut st = b.state.clone();
                st.rules.push(("Test".into(), "1".into()));
                b.server.plan[2] = vec![Behaviour::Answer(vec![st.rules_message()])];
            }
            match beh {
                Beh::PlayersSilent => b.server.plan[1] = vec![Behaviour::Silent],
                Beh::RulesSilent => b.server.plan[2] = vec![Behaviour::Silent],
                _ => {}
            }
            Box::new(std::mem::replace(&mut b.server, A2sServer::new(vec![], vec![], vec![])))
        }
        (Protocol::Unreal2, Beh::PlayersSilent) | (Protocol::Unreal2, Beh::RulesSilent) => {
            // a partial reply: server info answered, one of the lists not
            let mut st = crate::models::unreal2::UState::gen(rng, 2, 3);
            st.num_players = 2;
            let mut s = crate::models::unreal2::U2Server::new(st.info_datagram(), st.rules_datagrams(1), st.players_datagrams(1, true));
            s.plan[if beh == Beh::RulesSilent { 1 } else { 2 }] = vec![crate::models::unreal2::UBehaviour::Silent];
            Box::new(s)
        }
        _ => seed_server(&Ep::Generic(idx), rng),
    }
}

fn log_of(net: &Net) -> Vec<String> {
    net.log
        .iter()
        .filter_map(|e| match e {
            Ev::Connect { kind, addr, .. } => Some(format!("connect {kind:?} {addr}")),
            Ev::Send { data, .. } => Some(format!("send {}", hex(data))),
            _ => None,
        })
        .collect()
}

impl C14 {
    fn eco_case(&self, cx: &mut Cx) {
        // Eco is HTTP over real sockets: which port does each path connect to when none is given?
        let g = gamedig::GAMES.get("eco").unwrap();
        let st = EcoState::gen(&mut cx.rng);
        let body = st.body(&mut cx.rng, None);
        let lo = IpAddr::V4(Ipv4Addr::LOCALHOST);
        cx.eval();
        // explicit port: all paths must reach the same server and agree
        let mut results: Vec<(&str, R)> = Vec::new();
        for path in ["generic", "module"] {
            let Ok((port, h)) = http_once(body.clone().into_bytes(), false) else {
                cx.inconclusive("eco: cannot bind loopback listener");
                return;
            };
            let ts = gamedig::TimeoutSettings::new(Some(std::time::Duration::from_secs(3)), Some(std::time::Duration::from_secs(3)), Some(std::time::Duration::from_secs(3)), 0).ok();
            let (o, _) = guarded(|| match path {
                "generic" => as_r(gamedig::query_with_timeout_and_extra_settings(g, &lo, Some(port), ts, None), |b| common_value(b.as_ref(), false)),
                _ => as_r(games::eco::query_with_timeout(&lo, Some(port), &ts), tv),
            });
            let _ = h.join();
            if let Outcome::Returned(r) = o {
                results.push((path, r));
            }
        }
        if results.len() == 2 && results[0].1 != results[1].1 {
            cx.violation("C14 game=eco facet=result", || json!({"generic": format!("{:?}", results[0].1).chars().take(400).collect::<String>(), "module": format!("{:?}", results[1].1).chars().take(400).collect::<String>()}));
        }
        // default port: the definition's port vs the module's
        let def_port = g.default_port;
        let probe = |which: &str| -> Option<u16> {
            // listen on the candidate ports, see where the connection arrives
            let cands = [def_port, 3000, 3001];
            let mut ls = Vec::new();
            for p in cands {
                if ls.iter().any(|(q, _): &(u16, std::net::TcpListener)| *q == p) {
                    continue;
                }
                match std::net::TcpListener::bind(("127.0.0.1", p)) {
                    Ok(l) => {
                        l.set_nonblocking(true).ok();
                        ls.push((p, l));
                    }
                    Err(_) => return None,
                }
            }
            let ts = gamedig::TimeoutSettings::new(Some(std::time::Duration::from_millis(300)), Some(std::time::Duration::from_millis(300)), Some(std::time::Duration::from_millis(300)), 0).ok();
            let _ = guarded(|| match which {
                "generic" => gamedig::query_with_timeout_and_extra_settings(g, &lo, None, ts, None).map(|_| ()),
                _ => games::eco::query_with_timeout(&lo, None, &ts).map(|_| ()),
            });
            for (p, l) in &ls {
                if l.accept().is_ok() {
                    return Some(*p);
                }
            }
            Some(0)
        };
        match (probe("generic"), probe("module")) {
            (Some(a), Some(b)) => {
                cx.shape("eco|default-port-probe");
                if a != b {
                    cx.violation("C14 game=eco facet=default-port", || json!({"generic_path_connects_to": a, "module_connects_to": b, "definition_default_port": def_port}));
                } else if a != def_port {
                    cx.violation("C14 game=eco facet=default-port-not-definition", || json!({"connects_to": a, "definition_default_port": def_port}));
                } else {
                    cx.nontrivial(0xec0);
                    cx.count("eco-default-port-agrees");
                }
            }
            _ => cx.inconclusive("eco: ports 3000/3001 not bindable on loopback"),
        }
    }
}

impl Check for C14 {
    fn id(&self) -> &'static str { "C14" }
    fn rule(&self) -> String {
        "for every entry of GAMES (iterated at run time) x port given/omitted x 7 server behaviours (valid with main / dedicated / foreign app id, players silent, rules silent, malformed, total silence) x states: path A = query_with_timeout_and_extra_settings(definition), path B = the game's module function (found through the repository's game_query_mod! tables by pretty name), path C = the protocol's query with the definition's engine/version, default port and request settings — all against the same scripted server. Oracle: identical transport logs (destination, request bytes, order) and equal results (Ok compared as JSON after projecting Valve responses to game::Response; Err by kind). Eco: real loopback listeners on the candidate ports show where each path connects. non-trivial = all three paths ran and agreed; distinct by (game, behaviour, port, state)".into()
    }
    fn assumptions(&self) -> Vec<String> { vec!["an entry whose module cannot be found by pretty name is reported as unmapped (inconclusive for that entry only)".into(), "paths run with timeout settings None because the module functions offer nothing else".into()] }
    fn total_cases(&self, tier: Tier) -> u64 { 1 + game_ids().len() as u64 * 7 * 2 * tier.pick(18, 80) }
    fn exhaustive(&self, _tier: Tier) -> Option<bool> { Some(true) }
    fn max_workers(&self, _tier: Tier) -> usize { 16 }
    fn run_case(&mut self, cx: &mut Cx) {
        if cx.idx == 0 {
            self.eco_case(cx);
            return;
        }
        let k = cx.idx - 1;
        let ids = game_ids();
        let n = ids.len() as u64;
        let id = ids[(k % n) as usize];
        let beh = BEHS[((k / n) % 7) as usize];
        let given = (k / (n * 7)) % 2 == 0;
        let g = gamedig::GAMES.get(id).unwrap();
        if id == "eco" {
            return;
        }
        let ip = IpAddr::V4(Ipv4Addr::new(10, 14, cx.rng.u8(), cx.rng.u8().max(1)));
        // a given port is whatever number the caller gives: the edges of the range and the default itself included
        let port = given.then(|| if cx.rng.chance(1, 5) { *cx.rng.pick(&[0u16, 1, 65535, g.default_port]) } else { cx.rng.range(1024, 65535) as u16 });
        // for the protocols that take gather settings: caller-supplied extra settings on the generic path against the
        // protocol function given the same settings (the per-game modules take none and are left out of these cases)
        let extra: Option<gamedig::ExtraRequestSettings> = (matches!(g.protocol, Protocol::Valve(_) | Protocol::Unreal2) && cx.rng.chance(1, 3)).then(|| {
            use gamedig::protocols::types::GatherToggle as T;
            let mut x = gamedig::ExtraRequestSettings::default();
            let tg = [T::Skip, T::Try, T::Enforce];
            // setters in a random order, a host name among them (no field of these protocols depends on it)
            let mut order: Vec<u8> = vec![0, 1, 2, 3];
            cx.rng.shuffle(&mut order);
            for o in order {
                if cx.rng.chance(1, 3) {
                    continue;
                }
                x = match o {
                    0 => x.set_gather_players(*cx.rng.pick(&tg)),
                    1 => x.set_gather_rules(*cx.rng.pick(&tg)),
                    2 => x.set_check_app_id(cx.rng.bool()),
                    _ => x.set_hostname("example.org".to_string()),
                };
            }
            x
        });
        let base_rng = cx.rng.clone();
        let mut runs: Vec<(&str, Outcome<Option<R>>, Vec<String>)> = Vec::new();
        for path in ["A:generic", "B:module", "C:protocol"] {
            let mut rng = base_rng.clone();
            let server = make_server(id, g, beh, &mut rng);
            let run = run_with(server, DEFAULT_STEP_LIMIT, || match path {
                "A:generic" => Some(as_r(gamedig::query_with_timeout_and_extra_settings(g, &ip, port, None, extra.clone()), |b| common_value(b.as_ref(), true))),
                "B:module" if extra.is_some() => None,
                "B:module" => module_query(id, g, &ip, port),
                _ => match (&extra, &g.protocol) {
                    (Some(x), Protocol::Valve(e)) => Some(as_r(valve::query(&SocketAddr::new(ip, port.unwrap_or(g.default_port)), *e, Some(x.clone().into()), None), |r| tv(crate::models::valve::project_game(&r)))),
                    (Some(x), Protocol::Unreal2) => Some(as_r(unreal2::query(&SocketAddr::new(ip, port.unwrap_or(g.default_port)), &x.clone().into(), None), tv)),
                    _ => protocol_query(g, &ip, port),
                },
            });
            cx.eval();
            let log = log_of(&run.net);
            runs.push((path, run.outcome, log));
        }
        let label = format!("{id}|{beh:?}|port={}", if given { "given" } else { "default" });
        // unmapped?
        if let Outcome::Returned(None) = &runs[1].1 {
            if extra.is_some() {
                cx.count("cases-with-caller-supplied-extra-settings");
            } else {
                cx.inconclusive(&format!("unmapped module for {id}"));
                cx.count("unmapped");
            }
            runs.remove(1);
        }
        for (p, o, _) in &runs {
            if let Outcome::Panicked(pi) = o {
                cx.violation(format!("C14 panic at {} msg=\"{}\"", pi.loc, norm_msg(&pi.msg)), || json!({"game": id, "path": p}));
                return;
            }
        }
        let (p0, o0, l0) = &runs[0];
        let mut agreed = true;
        for (p, o, l) in &runs[1 ..] {
            if l != l0 {
                agreed = false;
                // which facet: destination or bytes
                let dest = |l: &Vec<String>| l.iter().find(|x| x.starts_with("connect")).cloned();
                let facet = if dest(l) != dest(l0) { "destination" } else { "request-sequence" };
                cx.violation(format!("C14 game={id} facet={facet} {p0}-vs-{p}"), || json!({"game": id, "case": label, p0.to_string(): l0, p.to_string(): l}));
                continue;
            }
            let (r0, r) = match (o0, o) {
                (Outcome::Returned(Some(a)), Outcome::Returned(Some(b))) => (a, b),
                _ => continue,
            };
            if r0 != r {
                agreed = false;
                let facet = match (r0, r) {
                    (Ok(_), Ok(_)) => "response",
                    (Err(_), Err(_)) => "error-kind",
                    _ => "ok-vs-err",
                };
                cx.violation(format!("C14 game={id} facet={facet} {p0}-vs-{p}"), || json!({"game": id, "case": label, p0.to_string(): format!("{r0:?}").chars().take(500).collect::<String>(), p.to_string(): format!("{r:?}").chars().take(500).collect::<String>()}));
            }
        }
        if agreed {
            cx.shape(&label);
            cx.nontrivial(hash64(label.as_bytes()) ^ hash64(l0.join("|").as_bytes()));
            cx.sample(|| json!({"case": label, "log": l0, "paths": runs.len()}));
        }
    }
    fn sufficient(&self, _tier: Tier, m: &Stats) -> Result<(), String> {
        let games: std::collections::HashSet<&str> = m.shapes.keys().filter_map(|k| k.split('|').next()).collect();
        if games.len() < 20 {
            return Err(format!("only {} games reached agreement on some behaviour", games.len()));
        }
        Ok(())
    }
    fn extra_coverage(&self, _tier: Tier, m: &Stats) -> Value {
        let games: std::collections::BTreeSet<&str> = m.shapes.keys().filter_map(|k| k.split('|').next()).collect();
        json!({"games_in_table": game_ids().len(), "games_with_agreeing_cases": games.len(), "unmapped_cases": m.counters.get("unmapped")})
    }
}
