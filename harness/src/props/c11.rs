//! C11 — gather toggles and the app-id check behave as documented.

use crate::core::framework::{Check, Cx, Stats, Tier};
use crate::core::monitor::{kind_name, norm_msg, run_with, Outcome, DEFAULT_STEP_LIMIT};
use crate::core::net::hex;
use crate::core::rng::hash64;
use crate::models::unreal2::{U2Server, UBehaviour, UState};
use crate::models::valve::{self as vm, A2sServer, Behaviour};
use crate::props::c02::{addr, build, toggles};
use crate::props::c06;
use gamedig::protocols::types::GatherToggle;
use gamedig::protocols::valve::{Engine, GatheringSettings};
use gamedig::protocols::{unreal2, valve};
use gamedig::GDErrorKind;
use serde_json::{json, Value};

pub struct C11;

#[derive(Debug, Clone, Copy, PartialEq, Eq)]
enum Out {
    Valid,
    Silent,
    Malformed,
    ChallengeThenSilent,
}
const OUTS: [Out; 4] = [Out::Valid, Out::Silent, Out::Malformed, Out::ChallengeThenSilent];

#[derive(Debug, Clone, Copy, PartialEq, Eq)]
enum AppRel {
    Main,
    Dedicated,
    Other,
    NoExpectationSource,
    NoExpectationGold,
}
const RELS: [AppRel; 5] = [AppRel::Main, AppRel::Dedicated, AppRel::Other, AppRel::NoExpectationSource, AppRel::NoExpectationGold];

const VALVE_CELLS: u64 = 9 * 16 * 5 * 2;
const U2_CELLS: u64 = 9 * 9;

fn timeoutish(k: &GDErrorKind) -> bool { matches!(k, GDErrorKind::PacketReceive | GDErrorKind::PacketSend) }

impl C11 {
    fn valve_cell(&self, cx: &mut Cx, cell: u64) {
        let tg = toggles();
        let (tp, tr) = (tg[(cell % 3) as usize], tg[((cell / 3) % 3) as usize]);
        let (op, or) = (OUTS[((cell / 9) % 4) as usize], OUTS[((cell / 36) % 4) as usize]);
        let rel = RELS[((cell / 144) % 5) as usize];
        let check = (cell / 720) % 2 == 0;
        // the ids the caller asked for are remembered here, not read back from the engine value
        let mut wanted: Option<(u32, Option<u32>)> = None;
        let mut mk = |main: u32, ded: Option<u32>| -> Engine {
            wanted = Some((main, ded));
            match ded {
                Some(d) => Engine::new_with_dedicated(main, d),
                None => Engine::new(main),
            }
        };
        let (engine, reported): (Engine, u32) = match rel {
            AppRel::Main => (mk(736_590, Some(950_900)), 736_590),
            AppRel::Dedicated => (mk(736_590, Some(950_900)), 950_900),
            // a caller may build an engine value for any id (0 and 2^24-1 included); the server reports another one
            AppRel::Other => match cx.rng.below(4) {
                0 => (mk(736_590, Some(950_900)), *cx.rng.pick(&[441u32, 0, 736_591, 70_000, 950_901])),
                1 => (mk(0, None), *cx.rng.pick(&[440u32, 1, 70_000])),
                2 => (mk(0, Some(5)), *cx.rng.pick(&[440u32, 1, 6])),
                _ => (mk(440, None), *cx.rng.pick(&[441u32, 0, 736_591, 70_000, 950_901])),
            },
            AppRel::NoExpectationSource => (Engine::Source(None), cx.rng.b_u32() & 0xff_ffff),
            AppRel::NoExpectationGold => (Engine::GoldSrc(false), cx.rng.b_u32() & 0xffff),
        };
        let (np, nr) = (cx.rng.usize(0, 4), cx.rng.usize(0, 4));
        let mut b = build(&mut cx.rng, &engine, reported, np, nr, false);
        let st = b.state.clone();
        let beh = |o: Out, valid: &Vec<Behaviour>, malformed: Vec<u8>| -> Vec<Behaviour> {
            match o {
                Out::Valid => valid.clone(),
                Out::Silent => vec![Behaviour::Silent],
                Out::Malformed => vec![Behaviour::Answer(vec![malformed])],
                Out::ChallengeThenSilent => vec![Behaviour::ChallengeThenSilent],
            }
        };
        let vp = b.server.plan[1].clone();
        let vr = b.server.plan[2].clone();
        // a malformed section reply: cut short (PacketUnderflow), or - Source engines only, GoldSrc has no such
        // framing - a compressed split answer that is not bzip2 (Decompress) / that declares 5 MiB (Decompress)
        let mut cx_count_variants = 0u64;
        let mut malformed = |rng: &mut crate::core::rng::Rng, short: Vec<u8>| -> Vec<u8> {
            let variant = if matches!(engine, Engine::Source(_)) { rng.below(3) } else { 0 };
            if variant > 0 {
                cx_count_variants += 1;
            }
            match variant {
                0 => short,
                v => {
                    let mut d = vec![0xfe, 0xff, 0xff, 0xff];
                    d.extend((rng.u32() | 0x8000_0000).to_le_bytes());
                    d.extend([1u8, 0u8]);
                    d.extend(1248u16.to_le_bytes());
                    d.extend((if v == 1 { 100u32 } else { 5 << 20 }).to_le_bytes());
                    d.extend(rng.u32().to_le_bytes());
                    d.extend(b"this is not a bzip2 stream at all");
                    d
                }
            }
        };
        let mp = malformed(&mut cx.rng, vec![0xff, 0xff, 0xff, 0xff, 0x44, 0x05, 0x00]);
        let mr = malformed(&mut cx.rng, vec![0xff, 0xff, 0xff, 0xff, 0x45, 0x09]);
        b.server.plan[1] = beh(op, &vp, mp);
        b.server.plan[2] = beh(or, &vr, mr);
        cx.count_n("valve-malformed-replies-of-the-compressed-kind", cx_count_variants);
        let server = std::mem::replace(&mut b.server, A2sServer::new(vec![], vec![], vec![]));
        let gs = GatheringSettings { players: tp, rules: tr, check_app_id: check };
        let retries = cx.rng.below(2) as usize;
        let ts = gamedig::TimeoutSettings::new(None, None, None, retries).ok();
        let a = addr(27015);
        let run = run_with(server, DEFAULT_STEP_LIMIT, || valve::query(&a, engine, Some(gs), ts));
        cx.eval();
        let sends: Vec<Vec<u8>> = run.net.sends().iter().map(|(_, d)| d.to_vec()).collect();
        let asked = |k: u8| sends.iter().any(|d| d.get(4) == Some(&k));
        let label = format!("valve|{tp:?}/{tr:?}|{op:?}/{or:?}|{rel:?}|check={check}");
        cx.shape(&label);
        let detail = |what: &str, got: String| json!({"what": what, "cell": label, "engine": format!("{engine:?}"), "reported_appid": reported, "got": got, "requests": sends.iter().map(|d| hex(d)).collect::<Vec<_>>()});
        // reference semantics
        let id_ok = match wanted {
            Some((m, d)) => reported == m || d == Some(reported),
            None => true,
        };
        let expect: Result<(bool, bool), &str> = if !id_ok && check {
            Err("BadGame")
        } else {
            let sec = |t: GatherToggle, o: Out| -> Result<bool, &'static str> {
                match (t, o) {
                    (GatherToggle::Skip, _) => Ok(false),
                    (_, Out::Valid) => Ok(true),
                    (GatherToggle::Try, _) => Ok(false),
                    (GatherToggle::Enforce, Out::Malformed) => Err("non-timeout"),
                    (GatherToggle::Enforce, _) => Err("timeout"),
                }
            };
            match sec(tp, op) {
                Err(e) => Err(e),
                Ok(p) => match sec(tr, or) {
                    Err(e) => Err(e),
                    Ok(r) => Ok((p, r)),
                },
            }
        };
        let got = match &run.outcome {
            Outcome::Returned(Ok(r)) => format!("Ok(players={}, rules={})", r.players.is_some(), r.rules.is_some()),
            Outcome::Returned(Err(e)) => format!("Err({})", kind_name(&e.kind)),
            Outcome::Panicked(p) => format!("panic {}", p.msg),
            Outcome::StepLimit { .. } => "step-limit".into(),
        };
        match (&run.outcome, &expect) {
            (Outcome::Panicked(p), _) => cx.violation(format!("C11 panic at {} msg=\"{}\"", p.loc, norm_msg(&p.msg)), || detail("panic", got.clone())),
            (Outcome::StepLimit { .. }, _) => cx.violation("C11 valve step-limit", || detail("step", got.clone())),
            (Outcome::Returned(Err(e)), Err("BadGame")) => {
                if e.kind != GDErrorKind::BadGame {
                    cx.violation(format!("C11 valve app-id-mismatch-not-BadGame kind={}", kind_name(&e.kind)), || detail("expected BadGame", got.clone()));
                } else if asked(0x55) || asked(0x56) {
                    cx.violation("C11 valve requests-after-BadGame", || detail("players/rules requested although the app id was rejected", got.clone()));
                } else {
                    cx.nontrivial(hash64(label.as_bytes()) ^ hash64(&st.info_message()));
                }
            }
            (Outcome::Returned(Ok(_)), Err("BadGame")) => cx.violation("C11 valve app-id-check-not-applied", || detail("expected BadGame", got.clone())),
            (Outcome::Returned(Err(e)), Err(class)) => {
                let ok = match *class {
                    "timeout" => timeoutish(&e.kind),
                    _ => !timeoutish(&e.kind) && e.kind != GDErrorKind::BadGame,
                };
                if ok {
                    cx.nontrivial(hash64(label.as_bytes()) ^ hash64(&st.info_message()));
                } else if e.kind == GDErrorKind::BadGame {
                    cx.violation(format!("C11 valve BadGame-although-{}", if !check { "check-off" } else { "id-expected" }), || detail("BadGame", got.clone()));
                } else {
                    cx.violation(format!("C11 valve enforce-failure-wrong-kind expected={class} got={}", kind_name(&e.kind)), || detail("kind", got.clone()));
                }
            }
            (Outcome::Returned(Ok(_)), Err(class)) => {
                let which = if matches!((tp, op), (GatherToggle::Enforce, o) if o != Out::Valid) { "players" } else { "rules" };
                cx.violation(format!("C11 valve enforce-failure-swallowed section={which} class={class}"), || detail("expected Err", got.clone()))
            }
            (Outcome::Returned(Err(e)), Ok(_)) => {
                let class = if e.kind == GDErrorKind::BadGame { if !check { "BadGame-although-check-off".to_string() } else { "BadGame-although-id-expected".to_string() } } else { format!("try-or-skip-failure-propagated kind={}", kind_name(&e.kind)) };
                cx.violation(format!("C11 valve {class}"), || detail("expected Ok", got.clone()))
            }
            (Outcome::Returned(Ok(r)), Ok((p, ru))) => {
                let exp = st.expected(*p, *ru);
                if tp == GatherToggle::Skip && asked(0x55) {
                    cx.violation("C11 valve skip-but-requested section=players", || detail("players requested", got.clone()));
                } else if tr == GatherToggle::Skip && asked(0x56) {
                    cx.violation("C11 valve skip-but-requested section=rules", || detail("rules requested", got.clone()));
                } else if let Some(f) = vm::diff_response(r, &exp) {
                    let class = if f.starts_with("players presence") || f.starts_with("rules presence") { format!("section-presence {}", f.split(' ').next().unwrap()) } else { "rest-of-response-differs".to_string() };
                    cx.violation(format!("C11 valve {class}"), || detail(&f, got.clone()));
                } else {
                    cx.nontrivial(hash64(label.as_bytes()) ^ hash64(&st.info_message()));
                    cx.sample(|| json!({"cell": label, "result": got}));
                }
            }
        }
    }

    /// The request-settings builder: after any sequence of setter calls every field holds what was set last for it and
    /// the others are untouched; the protocol settings derived from it carry those toggles (defaults where unset).
    fn builder_algebra(&self, cx: &mut Cx) {
        use gamedig::ExtraRequestSettings as X;
        let tg = toggles();
        let mut x = X::default();
        let (mut host, mut pv, mut gp, mut gr, mut chk): (Option<String>, Option<i32>, Option<GatherToggle>, Option<GatherToggle>, Option<bool>) = (None, None, None, None, None);
        let n = cx.rng.usize(1, 7);
        let mut calls = Vec::new();
        for _ in 0 .. n {
            match cx.rng.below(5) {
                0 => {
                    let h = cx.rng.ident(8);
                    x = x.set_hostname(h.clone());
                    host = Some(h);
                    calls.push("set_hostname");
                }
                1 => {
                    let v = cx.rng.b_i32();
                    x = x.set_protocol_version(v);
                    pv = Some(v);
                    calls.push("set_protocol_version");
                }
                2 => {
                    let t = tg[cx.rng.below(3) as usize];
                    x = x.set_gather_players(t);
                    gp = Some(t);
                    calls.push("set_gather_players");
                }
                3 => {
                    let t = tg[cx.rng.below(3) as usize];
                    x = x.set_gather_rules(t);
                    gr = Some(t);
                    calls.push("set_gather_rules");
                }
                _ => {
                    let b = cx.rng.bool();
                    x = x.set_check_app_id(b);
                    chk = Some(b);
                    calls.push("set_check_app_id");
                }
            }
        }
        cx.eval();
        let detail = || json!({"calls": calls, "value": format!("{x:?}")});
        if x.hostname != host || x.protocol_version != pv || x.gather_players != gp || x.gather_rules != gr || x.check_app_id != chk {
            cx.violation("C11 request-settings builder loses or invents a setting", detail);
            return;
        }
        let v: GatheringSettings = x.clone().into();
        let dv = GatheringSettings::default();
        let u: unreal2::GatheringSettings = x.clone().into();
        let du = unreal2::GatheringSettings::default();
        if v.players != gp.unwrap_or(dv.players) || v.rules != gr.unwrap_or(dv.rules) || v.check_app_id != chk.unwrap_or(dv.check_app_id) {
            cx.violation("C11 valve settings derived from the builder differ", detail);
        } else if u.players != gp.unwrap_or(du.players) || u.mutators_and_rules != gr.unwrap_or(du.mutators_and_rules) {
            cx.violation("C11 unreal2 settings derived from the builder differ", detail);
        } else {
            cx.count("builder-sequences-ok");
        }
    }

    fn u2_cell(&self, cx: &mut Cx, cell: u64) {
        self.builder_algebra(cx);
        let tg = toggles();
        let (tp, tr) = (tg[(cell % 3) as usize], tg[((cell / 3) % 3) as usize]);
        let outs = [Out::Valid, Out::Silent, Out::Malformed];
        let (op, or) = (outs[((cell / 9) % 3) as usize], outs[((cell / 27) % 3) as usize]);
        let (x, y) = (cx.rng.usize(1, 5), cx.rng.usize(1, 6));
        let mut st = UState::gen(&mut cx.rng, x, y);
        st.num_players = st.players.len() as u32;
        if op != Out::Valid && cx.rng.chance(1, 3) {
            // an announced count of zero does not make a failing players section any less of a failure
            st.num_players = 0;
            cx.count("unreal2-failing-players-section-with-zero-announced");
        }
        let mut server = U2Server::new(st.info_datagram(), st.rules_datagrams(2), st.players_datagrams(2, true));
        // three kinds of malformed section, stratified over the repetitions of the cell: a datagram of another kind;
        // a datagram with the right header whose body cannot be parsed (a UCS-2 string announcing more than is there);
        // and - rules only, the players loop stops at the announced count - valid datagrams followed by such a one
        let mv = (cx.idx / (VALVE_CELLS + U2_CELLS)) % 3;
        cx.count(match mv { 0 => "unreal2-malformed-variant-wrong-kind", 1 => "unreal2-malformed-variant-bad-body", _ => "unreal2-malformed-variant-bad-later-datagram" });
        let beh = |o: Out, valid: Vec<UBehaviour>, kind: u8| match o {
            Out::Valid => valid,
            Out::Silent | Out::ChallengeThenSilent => vec![UBehaviour::Silent],
            Out::Malformed => {
                let bad_body: Vec<u8> = if kind == 1 { vec![0x80, 0, 0, 0, 1, 0x85, 0x47, 0x00] } else { vec![0x80, 0, 0, 0, 2, 1, 0, 0, 0, 0x85, 0x47, 0x00] };
                match (mv, kind, valid.first()) {
                    (0, _, _) => vec![UBehaviour::Answer(vec![vec![0x80, 0, 0, 0, 0x07]])],
                    (2, 1, Some(UBehaviour::Answer(ds))) => {
                        let mut ds = ds.clone();
                        ds.push(bad_body);
                        vec![UBehaviour::Answer(ds)]
                    }
                    _ => vec![UBehaviour::Answer(vec![bad_body])],
                }
            }
        };
        server.plan[1] = beh(or, server.plan[1].clone(), 1);
        server.plan[2] = beh(op, server.plan[2].clone(), 2);
        let gs = unreal2::GatheringSettings { players: tp, mutators_and_rules: tr };
        let ts = gamedig::TimeoutSettings::new(None, None, None, cx.rng.below(2) as usize).ok();
        let a = addr(7778);
        let run = run_with(server, DEFAULT_STEP_LIMIT, || unreal2::query(&a, &gs, ts));
        cx.eval();
        let sends: Vec<Vec<u8>> = run.net.sends().iter().map(|(_, d)| d.to_vec()).collect();
        let asked = |k: u8| sends.iter().any(|d| d == &[0x79, 0, 0, 0, k]);
        let label = format!("unreal2|players={tp:?}/{op:?}|rules={tr:?}/{or:?}");
        cx.shape(&label);
        let sec = |t: GatherToggle, o: Out| -> Result<bool, &'static str> {
            match (t, o) {
                (GatherToggle::Skip, _) => Ok(false),
                (_, Out::Valid) => Ok(true),
                (GatherToggle::Try, _) => Ok(false),
                (GatherToggle::Enforce, Out::Malformed) => Err("non-timeout"),
                (GatherToggle::Enforce, _) => Err("timeout"),
            }
        };
        // unreal2 gathers rules before players
        let expect: Result<(bool, bool), &str> = match sec(tr, or) {
            Err(e) => Err(e),
            Ok(r) => match sec(tp, op) {
                Err(e) => Err(e),
                Ok(p) => Ok((r, p)),
            },
        };
        let got = match &run.outcome {
            Outcome::Returned(Ok(r)) => format!("Ok(players={}, rules={})", r.players.total_len(), r.mutators_and_rules.rules.len()),
            Outcome::Returned(Err(e)) => format!("Err({})", kind_name(&e.kind)),
            Outcome::Panicked(p) => format!("panic {}", p.msg),
            Outcome::StepLimit { .. } => "step-limit".into(),
        };
        let detail = |what: &str| json!({"what": what, "cell": label, "got": got, "requests": sends.iter().map(|d| hex(d)).collect::<Vec<_>>()});
        match (&run.outcome, &expect) {
            (Outcome::Panicked(p), _) => cx.violation(format!("C11 panic at {} msg=\"{}\"", p.loc, norm_msg(&p.msg)), || detail("panic")),
            (Outcome::StepLimit { .. }, _) => cx.violation("C11 unreal2 step-limit", || detail("step")),
            (Outcome::Returned(Err(e)), Err(class)) => {
                let ok = if *class == "timeout" { timeoutish(&e.kind) } else { !timeoutish(&e.kind) };
                if ok {
                    cx.nontrivial(hash64(label.as_bytes()) ^ hash64(&st.info_datagram()));
                } else {
                    cx.violation(format!("C11 unreal2 enforce-failure-wrong-kind expected={class} got={}", kind_name(&e.kind)), || detail("kind"));
                }
            }
            (Outcome::Returned(Ok(_)), Err(class)) => {
                let which = if matches!((tr, or), (GatherToggle::Enforce, o) if o != Out::Valid) { "rules" } else { "players" };
                cx.violation(format!("C11 unreal2 enforce-failure-swallowed section={which} class={class}"), || detail("expected Err"))
            }
            (Outcome::Returned(Err(e)), Ok(_)) => cx.violation(format!("C11 unreal2 try-or-skip-failure-propagated kind={}", kind_name(&e.kind)), || detail("expected Ok")),
            (Outcome::Returned(Ok(r)), Ok((ru, p))) => {
                let exp = st.expected(*ru, *p);
                if tp == GatherToggle::Skip && asked(2) {
                    cx.violation("C11 unreal2 skip-but-requested section=players", || detail("players requested"));
                } else if tr == GatherToggle::Skip && asked(1) {
                    cx.violation("C11 unreal2 skip-but-requested section=rules", || detail("rules requested"));
                } else if let Some((sig, what)) = c06::diff(r, &exp) {
                    cx.violation(format!("C11 unreal2 response-differs {sig}"), || detail(&what));
                } else {
                    cx.nontrivial(hash64(label.as_bytes()) ^ hash64(&st.info_datagram()));
                }
            }
        }
    }
}

impl Check for C11 {
    fn id(&self) -> &'static str { "C11" }
    fn level(&self) -> &'static str { "fault_enumeration" }
    fn rule(&self) -> String {
        "exhaustive matrix, each cell with several random server states. Valve: 9 (players, rules) toggle pairs x 4 outcomes per section {valid, silent, malformed, challenge-then-silent} x app-id relation {main, dedicated, other, no expectation (Source(None)), no expectation (GoldSrc)} x check on/off = 1 440 cells; Unreal 2: 9 pairs x 3 outcomes per section = 81 cells, the malformed outcome stratified over {datagram of another kind, right header with an unparsable body, valid datagrams followed by such a datagram (rules)}. From log + result: Skip => that request kind never sent and the section absent; Try + failure => rest of the response equal to the fault-free one with the section absent; Enforce + failure => Err of that failure's class; Ok iff check off, or no expectation, or id in {main, dedicated}, else BadGame with no players/rules request after it. non-trivial = a cell whose verdict was reached; distinct by (cell, state)".into()
    }
    fn assumptions(&self) -> Vec<String> { vec!["'that failure's kind' is asserted by class: timeout-class (PacketReceive/PacketSend) for silence, a non-timeout kind for a malformed reply".into(), "server models as in C02/C06".into()] }
    fn total_cases(&self, tier: Tier) -> u64 { (VALVE_CELLS + U2_CELLS) * tier.pick(60, 400) }
    fn exhaustive(&self, _tier: Tier) -> Option<bool> { Some(true) }
    fn run_case(&mut self, cx: &mut Cx) {
        let cell = cx.idx % (VALVE_CELLS + U2_CELLS);
        if cell < VALVE_CELLS {
            self.valve_cell(cx, cell)
        } else {
            self.u2_cell(cx, cell - VALVE_CELLS)
        }
    }
    fn sufficient(&self, _tier: Tier, m: &Stats) -> Result<(), String> {
        let need = (VALVE_CELLS + U2_CELLS) as usize;
        if m.shapes.len() < need {
            return Err(format!("{} of {need} cells executed", m.shapes.len()));
        }
        for k in ["unreal2-malformed-variant-wrong-kind", "unreal2-malformed-variant-bad-body", "unreal2-malformed-variant-bad-later-datagram"] {
            if m.counters.get(k).copied().unwrap_or(0) == 0 {
                return Err(format!("{k}: never exercised"));
            }
        }
        Ok(())
    }
    fn extra_coverage(&self, _tier: Tier, m: &Stats) -> Value { json!({"cells_executed": m.shapes.len(), "cells_planned": VALVE_CELLS + U2_CELLS, "unreal2_cell_runs_by_malformed_kind": {"wrong_kind": m.counters.get("unreal2-malformed-variant-wrong-kind"), "bad_body": m.counters.get("unreal2-malformed-variant-bad-body"), "bad_later_datagram": m.counters.get("unreal2-malformed-variant-bad-later-datagram")}}) }
}
