//! C09 — requests are the protocol's, go to the right port, and echo challenges.

use crate::core::framework::{Check, Cx, Stats, Tier};
use crate::core::monitor::{kind_name, norm_msg, run_with, Outcome, DEFAULT_STEP_LIMIT};
use crate::core::net::{hex, Ev, Net};
use crate::core::rng::hash64;
use crate::models::gamespy::{Gs1State, Gs2State, Gs3Server, Gs3State, OneShotUdp, GS1_REQUEST, GS2_REQUEST};
use crate::models::minecraft::{varint, BedrockState, JavaState, LegacyState, McServerModel, NonAnswer, Variant, BEDROCK_PING};
use crate::models::misc::{FfowServer, FfowState, Jc2mState, MindustryState, Savage2State};
use crate::models::quake::{QState, Ver};
use crate::models::unreal2::{U2Server, UState};
use crate::models::valve::{A2sServer, INFO_PAYLOAD};
use crate::props::c02::build;
use crate::props::hostile::game_ids;
use gamedig::games::minecraft::{LegacyGroup, RequestSettings, Server as McKind};
use gamedig::protocols::gamespy::GameSpyVersion;
use gamedig::protocols::quake::QuakeVersion;
use gamedig::protocols::types::{ExtraRequestSettings, GatherToggle, ProprietaryProtocol, Protocol};
use gamedig::protocols::valve::{self, Engine, GatheringSettings};
use gamedig::verif_hook::Kind;
use gamedig::{games, GDErrorKind};
use serde_json::{json, Value};
use std::net::{IpAddr, Ipv4Addr, Ipv6Addr, SocketAddr};

pub struct C09;

const ALPHA: [u8; 12] = [0x00, 0x01, 0x0a, 0x0d, 0x20, 0x41, 0x54, 0x7f, 0x80, 0xfe, 0xff, 0x5c];
const N_WORDS: u64 = 12 * 12 * 12 * 12;

fn sends_of(net: &Net) -> Vec<Vec<u8>> { net.sends().into_iter().map(|(_, d)| d.to_vec()).collect() }

fn log_json(net: &Net) -> Value {
    json!(net
        .log
        .iter()
        .map(|e| match e {
            Ev::Connect { kind, addr, ok, .. } => format!("connect {kind:?} {addr} ok={ok}"),
            Ev::Send { data, ok, .. } => format!("send {} ok={ok}", hex(data)),
            Ev::Recv { got, .. } => format!("recv {got:?}"),
            Ev::Close { .. } => "close".into(),
        })
        .collect::<Vec<_>>())
}

/// the complete reference request sequence of a valid A2S exchange, from what the server issued
fn a2s_reference(server: &A2sServer, players: bool, rules: bool) -> Vec<Vec<u8>> {
    let mut out = Vec::new();
    let mut info = vec![0xff, 0xff, 0xff, 0xff, 0x54];
    info.extend(INFO_PAYLOAD);
    out.push(info.clone());
    for ch in &server.issued_log[0] {
        let mut r = info.clone();
        r.extend(ch);
        out.push(r);
    }
    for (sec, kind, wanted) in [(1usize, 0x55u8, players), (2, 0x56, rules)] {
        if !wanted {
            continue;
        }
        out.push(vec![0xff, 0xff, 0xff, 0xff, kind, 0xff, 0xff, 0xff, 0xff]);
        for ch in &server.issued_log[sec] {
            let mut r = vec![0xff, 0xff, 0xff, 0xff, kind];
            r.extend(ch);
            out.push(r);
        }
    }
    out
}

fn java_reference(host: &str, protocol: i32, port: u16) -> Vec<Vec<u8>> {
    let mut hs = vec![0x00];
    hs.extend(varint(protocol));
    hs.extend(varint(host.len() as i32));
    hs.extend(host.bytes());
    hs.extend(port.to_be_bytes());
    hs.push(0x01);
    let mut first = varint(hs.len() as i32);
    first.extend(hs);
    vec![first, vec![0x01, 0x00]]
}

impl C09 {
    fn valve_challenge(&self, cx: &mut Cx, word: [u8; 4], sec: usize, rounds: u32) {
        let engine = Engine::new(440);
        let (np, nr) = (cx.rng.usize(0, 3), cx.rng.usize(0, 3));
        let mut b = build(&mut cx.rng, &engine, 440, np, nr, false);
        b.server.rounds = [0; 3];
        b.server.rounds[sec] = rounds;
        // other sections sometimes challenged too
        for s in 0 .. 3 {
            if s != sec && cx.rng.chance(1, 4) {
                b.server.rounds[s] = 1;
            }
        }
        let mut chs = vec![word];
        for _ in 0 .. 3 {
            chs.push([cx.rng.b_u8(), cx.rng.b_u8(), cx.rng.b_u8(), cx.rng.b_u8()]);
        }
        b.server.challenges = chs.clone();
        // the word under test is always among the challenges issued for its section (first, or last of the rounds)
        let mut own = chs[1 .. rounds.max(1) as usize].to_vec();
        if cx.rng.bool() {
            own.insert(0, word);
        } else {
            own.push(word);
        }
        b.server.section_challenges[sec] = own;
        let server = std::mem::replace(&mut b.server, A2sServer::new(vec![], vec![], vec![]));
        let gs = GatheringSettings { players: GatherToggle::Enforce, rules: GatherToggle::Enforce, check_app_id: true };
        let a = SocketAddr::new(IpAddr::V4(Ipv4Addr::new(10, 3, 2, 1)), 27015);
        let run = run_with(server, DEFAULT_STEP_LIMIT, || valve::query(&a, engine, Some(gs), None));
        cx.eval();
        let srv = run.server.borrow();
        let reference = a2s_reference(&srv, true, true);
        let actual = sends_of(&run.net);
        let detail = |what: &str| json!({"what": what, "word": hex(&word), "section": sec, "rounds": rounds, "log": log_json(&run.net), "reference": reference.iter().map(|r| hex(r)).collect::<Vec<_>>(), "server_errors": srv.protocol_errors});
        match &run.outcome {
            Outcome::Returned(Ok(_)) => {
                if actual != reference {
                    let class = if actual.len() > reference.len() { "extra-request" } else if actual.len() < reference.len() { "missing-request" } else { "wrong-request-bytes" };
                    cx.violation(format!("C09 valve {class} section={}", ["info", "players", "rules"][sec]), || detail(class));
                } else if !srv.issued_log[sec].contains(&word) && rounds > 0 {
                    cx.inconclusive("valve challenge word not issued");
                } else {
                    cx.count("valve-challenge-ok");
                    cx.nontrivial(hash64(&word) ^ (sec as u64) << 40 ^ (rounds as u64) << 50);
                    cx.sample(|| json!({"kind": "valve challenge echo", "challenge": hex(&word), "section": sec, "rounds": rounds, "requests": actual.iter().map(|r| hex(r)).collect::<Vec<_>>()}));
                }
            }
            Outcome::Returned(Err(e)) => {
                // the server refuses to answer a wrong echo, so a failed query on a valid server is how a bad echo shows
                let class = if srv.protocol_errors.is_empty() { "query-failed" } else { "challenge-not-echoed" };
                cx.violation(format!("C09 valve {class} section={} kind={}", ["info", "players", "rules"][sec], kind_name(&e.kind)), || detail(class));
            }
            Outcome::Panicked(p) => cx.violation(format!("C09 panic at {} msg=\"{}\"", p.loc, norm_msg(&p.msg)), || detail(&p.msg)),
            Outcome::StepLimit { .. } => cx.violation("C09 valve step-limit", || detail("step limit")),
        }
    }

    fn gs3_challenge(&self, cx: &mut Cx) {
        let (text, value): (String, Option<i32>) = match cx.rng.below(12) {
            0 => ("0".into(), Some(0)),
            1 => ("1".into(), Some(1)),
            2 => ("-1".into(), Some(-1)),
            3 => ("2147483647".into(), Some(i32::MAX)),
            4 => ("-2147483648".into(), Some(i32::MIN)),
            5 => ("+5".into(), Some(5)),
            6 => ("0007".into(), Some(7)),
            7 => ("-0".into(), Some(0)),
            _ => {
                let v = cx.rng.b_i32();
                (v.to_string(), Some(v))
            }
        };
        let st = Gs3State::gen(&mut cx.rng, 2, 1, 1);
        let p = st.payloads(&mut cx.rng, 1);
        let server = Gs3Server::new(&text, Gs3State::frame(&p));
        let a = SocketAddr::new(IpAddr::V4(Ipv4Addr::new(10, 3, 2, 1)), 64100);
        let run = run_with(server, DEFAULT_STEP_LIMIT, || gamedig::protocols::gamespy::three::query(&a, None));
        cx.eval();
        let srv = run.server.borrow();
        let actual = sends_of(&run.net);
        let v = value.unwrap();
        let mut data_req = vec![0xfe, 0xfd, 0x00, 0x00, 0x00, 0x00, 0x01];
        data_req.extend(v.to_be_bytes());
        data_req.extend([0xff, 0xff, 0xff, 0x01]);
        let reference = vec![vec![0xfe, 0xfd, 0x09, 0x00, 0x00, 0x00, 0x01], data_req];
        let detail = || json!({"challenge_text": text, "challenge": v, "requests": actual.iter().map(|r| hex(r)).collect::<Vec<_>>(), "reference": reference.iter().map(|r| hex(r)).collect::<Vec<_>>()});
        match &run.outcome {
            Outcome::Returned(_) => {
                if actual != reference {
                    let class = if v == 0 { "challenge-zero-not-echoed".to_string() } else if actual.len() != reference.len() { "request-count".to_string() } else { "challenge-not-echoed".to_string() };
                    cx.violation(format!("C09 gamespy3 {class}"), detail);
                } else {
                    cx.count("gs3-challenge-ok");
                    cx.nontrivial(hash64(text.as_bytes()) ^ 0x9593);
                }
            }
            Outcome::Panicked(p) => cx.violation(format!("C09 panic at {} msg=\"{}\"", p.loc, norm_msg(&p.msg)), detail),
            Outcome::StepLimit { .. } => cx.violation("C09 gamespy3 step-limit", detail),
        }
        let _ = srv;
    }

    fn java_settings(&self, cx: &mut Cx) {
        let host = match cx.rng.below(8) {
            6 => cx.rng.pick(&["mc.example.com:25565", "::1", "2001:db8::25", "a:b", "name:65536", "[::1]:25565", "host:0", "fe80::dead:beef", "x:1"]).to_string(),
            7 => cx.rng.pick(&["MC.Example.ORG", " padded ", "dot.", ".dot", "a..b", "xn--mnchen-3ya.example", "münchen.example", "localhost", "127.0.0.1"]).to_string(),
            0 => String::new(),
            1 => "a".repeat(255),
            2 => cx.rng.text(40, &[]),
            3 => "mc.example.org".to_string(),
            4 => "x".repeat(cx.rng.usize(126, 130)),
            _ => cx.rng.text_class(4, 20, &[]),
        };
        let protocol = *cx.rng.pick(&[-1, 0, 1, 47, 765, i32::MIN, i32::MAX, 127, 128, 16383, 16384]);
        let port = *cx.rng.pick(&[25565u16, 1, 255, 256, 0x1234, 65535, 80]);
        let st = JavaState::gen(&mut cx.rng);
        let mut answers: [Option<Vec<u8>>; 5] = Default::default();
        answers[0] = Some(st.stream(&mut cx.rng));
        let a = SocketAddr::new(IpAddr::V4(Ipv4Addr::new(10, 3, 2, 1)), port);
        let rs = RequestSettings { hostname: host.clone(), protocol_version: protocol };
        let run = run_with(McServerModel::new(answers, [NonAnswer::Silent; 5], vec![]), DEFAULT_STEP_LIMIT, || games::minecraft::protocol::query_java(&a, None, Some(rs)));
        cx.eval();
        let actual = sends_of(&run.net);
        let reference = java_reference(&host, protocol, port);
        let detail = || json!({"host": host, "protocol": protocol, "port": port, "writes": actual.iter().map(|r| hex(r)).collect::<Vec<_>>(), "reference(handshake, status request)": reference.iter().map(|r| hex(r)).collect::<Vec<_>>()});
        match &run.outcome {
            Outcome::Returned(_) => {
                // the stream is what matters for TCP: compare the concatenation, then the trailing ping separately
                let stream: Vec<u8> = actual.concat();
                let refstream: Vec<u8> = reference.concat();
                if !stream.starts_with(&refstream) {
                    // find the first differing component
                    let hs_ok = actual.first() == reference.first();
                    let class = if !hs_ok {
                        let a0 = actual.first().cloned().unwrap_or_default();
                        let r0 = &reference[0];
                        if a0.len() == r0.len() && a0[.. a0.len() - 3] == r0[.. r0.len() - 3] { "handshake-port" } else { "handshake" }
                    } else {
                        "status-request"
                    };
                    cx.violation(format!("C09 java {class}"), detail);
                } else {
                    let rest = &stream[refstream.len() ..];
                    if rest == [0x01, 0x01] {
                        cx.observe("java ping request sent as 01 01 (no 8-byte payload; wiki.vg prescribes one) — Q6, not asserted");
                    } else if !rest.is_empty() && !(rest.len() == 10 && rest[0] == 0x09 && rest[1] == 0x01) {
                        cx.violation("C09 java extra-bytes-after-status-request", detail);
                        return;
                    }
                    cx.count("java-settings-ok");
                    cx.nontrivial(hash64(&stream));
                    cx.sample(|| json!({"kind": "java handshake", "host_len": host.len(), "protocol": protocol, "port": port, "stream": hex(&stream[.. stream.len().min(60)])}));
                }
            }
            Outcome::Panicked(p) => cx.violation(format!("C09 panic at {} msg=\"{}\"", p.loc, norm_msg(&p.msg)), detail),
            Outcome::StepLimit { .. } => cx.violation("C09 java step-limit", detail),
        }
    }

    /// every GAMES entry x port given/omitted x IPv4/IPv6: destination and complete request sequence of a valid exchange
    fn game_case(&self, cx: &mut Cx, gi: usize, given_port: bool, v6: bool) {
        let ids = game_ids();
        let id = ids[gi];
        let g = gamedig::GAMES.get(id).unwrap();
        if matches!(g.protocol, Protocol::PROPRIETARY(ProprietaryProtocol::Eco)) {
            cx.observe("eco uses HTTP over real sockets (request checked in C07/C12)");
            return;
        }
        let ip: IpAddr = if v6 { IpAddr::V6(Ipv6Addr::new(0xfd00, 0, 0, 0, 0, 0, 0, cx.rng.range(1, 65535) as u16)) } else { IpAddr::V4(Ipv4Addr::new(10, cx.rng.u8(), cx.rng.u8(), cx.rng.u8().max(1))) };
        let port = given_port.then(|| cx.rng.range(1, 65535) as u16);
        let expect_addr = SocketAddr::new(ip, port.unwrap_or(g.default_port));
        let retries = 0;
        let ts = gamedig::TimeoutSettings::new(None, None, None, retries).ok();
        let label = format!("{id}|port={}|{}", if given_port { "given" } else { "default" }, if v6 { "v6" } else { "v4" });
        cx.eval();
        // run with a concrete server for the protocol family and validate the complete exchange
        macro_rules! go {
            ($server:expr, $extra:expr, $validate:expr) => {{
                let extra: Option<ExtraRequestSettings> = $extra;
                let run = run_with($server, DEFAULT_STEP_LIMIT, || gamedig::query_with_timeout_and_extra_settings(g, &ip, port, ts, extra).map(|_| ()));
                let net = &run.net;
                let srv = run.server.borrow();
                let mut problem: Option<(String, String)> = None;
                for (k, a) in net.connects() {
                    if a != expect_addr {
                        problem = Some(("wrong-destination".into(), format!("{k:?} connection to {a}, expected {expect_addr}")));
                    }
                }
                if net.connects().is_empty() {
                    problem = Some(("no-connection".into(), String::new()));
                }
                if problem.is_none() {
                    let v: Option<String> = $validate(&*srv, net);
                    if let Some(w) = v {
                        problem = Some(("request-sequence".into(), w));
                    }
                }
                match (&run.outcome, problem) {
                    (Outcome::Panicked(p), _) => cx.violation(format!("C09 panic at {} msg=\"{}\"", p.loc, norm_msg(&p.msg)), || json!({"game": id, "log": log_json(net)})),
                    (Outcome::StepLimit { .. }, _) => cx.violation("C09 step-limit", || json!({"game": id})),
                    (_, Some((class, what))) => cx.violation(format!("C09 game={id} {class}"), || json!({"game": id, "case": label, "what": what, "expected_destination": expect_addr.to_string(), "log": log_json(net)})),
                    (Outcome::Returned(Err(e)), None) => {
                        // requests were right but the query failed: not this property's business unless nothing was consumed
                        cx.observe(&format!("valid exchange failed with {} (see C02-C07)", kind_name(&e.kind)));
                    }
                    (Outcome::Returned(Ok(())), None) => {
                        cx.count("game-ok");
                        cx.shape(&label);
                        cx.nontrivial(hash64(label.as_bytes()) ^ hash64(&sends_of(net).concat()));
                    }
                }
            }};
        }
        match &g.protocol {
            Protocol::Valve(engine) => {
                let appid = match engine {
                    Engine::Source(Some((a, _))) => *a,
                    _ => 10,
                };
                let mut b = build(&mut cx.rng, engine, appid, 2, 2, false);
                let server = std::mem::replace(&mut b.server, A2sServer::new(vec![], vec![], vec![]));
                let gs: GatheringSettings = g.request_settings.clone().into();
                go!(server, None, |s: &A2sServer, n: &Net| {
                    let reference = a2s_reference(s, gs.players != GatherToggle::Skip, gs.rules != GatherToggle::Skip);
                    (sends_of(n) != reference).then(|| format!("reference {:?}", reference.iter().map(|r| hex(r)).collect::<Vec<_>>()))
                });
            }
            Protocol::Gamespy(GameSpyVersion::One) => {
                let st = Gs1State::gen(&mut cx.rng, 2, 1);
                let d = st.encode(&mut cx.rng, 2);
                go!(OneShotUdp::new(GS1_REQUEST, d), None, |s: &OneShotUdp, n: &Net| (sends_of(n) != vec![GS1_REQUEST.to_vec()] || !s.bad_requests.is_empty()).then(|| "expected exactly \\status\\xserverquery".to_string()));
            }
            Protocol::Gamespy(GameSpyVersion::Two) => {
                let st = Gs2State::gen(&mut cx.rng, 2, 1, 1);
                let d = st.encode(&mut cx.rng);
                go!(OneShotUdp::new(GS2_REQUEST, vec![d]), None, |_s: &OneShotUdp, n: &Net| (sends_of(n) != vec![GS2_REQUEST.to_vec()]).then(|| "expected exactly FE FD 00 00 00 00 01 FF FF FF".to_string()));
            }
            Protocol::Gamespy(GameSpyVersion::Three) => {
                let st = Gs3State::gen(&mut cx.rng, 2, 1, 1);
                let p = st.payloads(&mut cx.rng, 2);
                let ch = cx.rng.range(1, i32::MAX as u64).to_string();
                go!(Gs3Server::new(&ch, Gs3State::frame(&p)), None, |s: &Gs3Server, n: &Net| {
                    let reference = vec![vec![0xfe, 0xfd, 0x09, 0x00, 0x00, 0x00, 0x01], s.expected_data_request().unwrap()];
                    (sends_of(n) != reference).then(|| format!("reference {:?}", reference.iter().map(|r| hex(r)).collect::<Vec<_>>()))
                });
            }
            Protocol::Quake(v) => {
                let ver = match v {
                    QuakeVersion::One => Ver::One,
                    QuakeVersion::Two => Ver::Two,
                    QuakeVersion::Three => Ver::Three,
                };
                let st = QState::gen(&mut cx.rng, ver, 2, 1);
                let d = st.encode(&mut cx.rng);
                let req = st.request();
                go!(OneShotUdp::new(&req, vec![d]), None, |_s: &OneShotUdp, n: &Net| (sends_of(n) != vec![req.clone()]).then(|| format!("expected exactly {}", hex(&req))));
            }
            Protocol::Unreal2 => {
                let mut st = UState::gen(&mut cx.rng, 2, 2);
                st.num_players = 2;
                let server = U2Server::new(st.info_datagram(), st.rules_datagrams(1), st.players_datagrams(1, true));
                go!(server, None, |_s: &U2Server, n: &Net| {
                    let reference: Vec<Vec<u8>> = vec![vec![0x79, 0, 0, 0, 0], vec![0x79, 0, 0, 0, 1], vec![0x79, 0, 0, 0, 2]];
                    (sends_of(n) != reference).then(|| "expected 79 00 00 00 00 / 01 / 02".to_string())
                });
            }
            Protocol::PROPRIETARY(p) => match p {
                ProprietaryProtocol::TheShip => {
                    let e = Engine::new(2400);
                    let mut b = build(&mut cx.rng, &e, 2400, 2, 2, false);
                    let server = std::mem::replace(&mut b.server, A2sServer::new(vec![], vec![], vec![]));
                    go!(server, None, |s: &A2sServer, n: &Net| {
                        let reference = a2s_reference(s, true, true);
                        (sends_of(n) != reference).then(|| "A2S reference sequence".to_string())
                    });
                }
                ProprietaryProtocol::FFOW => {
                    let st = FfowState::gen(&mut cx.rng);
                    let server = FfowServer { reply: st.datagram(), challenge: st.challenge, issued: false, requests: vec![], errors: vec![] };
                    go!(server, None, |s: &FfowServer, n: &Net| {
                        let mut reference = vec![[&[0xff, 0xff, 0xff, 0xff, 0x46][..], b"LSQ"].concat()];
                        if let Some(c) = s.challenge {
                            reference.push([&[0xff, 0xff, 0xff, 0xff, 0x46][..], &c[..]].concat());
                        }
                        (sends_of(n) != reference).then(|| format!("reference {:?}", reference.iter().map(|r| hex(r)).collect::<Vec<_>>()))
                    });
                }
                ProprietaryProtocol::JC2M => {
                    let st = Jc2mState::gen(&mut cx.rng, 2);
                    let mut server = Gs3Server::new(&cx.rng.range(1, 1 << 30).to_string(), vec![st.datagram(&mut cx.rng)]);
                    server.payload = [0xff, 0xff, 0xff, 0x02];
                    go!(server, None, |s: &Gs3Server, n: &Net| {
                        let reference = vec![vec![0xfe, 0xfd, 0x09, 0x00, 0x00, 0x00, 0x01], s.expected_data_request().unwrap()];
                        (sends_of(n) != reference).then(|| "handshake + data request with FF FF FF 02".to_string())
                    });
                }
                ProprietaryProtocol::Savage2 => {
                    go!(OneShotUdp::new(&[0x01], vec![Savage2State::gen(&mut cx.rng).datagram()]), None, |_s: &OneShotUdp, n: &Net| (sends_of(n) != vec![vec![0x01u8]]).then(|| "expected exactly 01".to_string()));
                }
                ProprietaryProtocol::Mindustry => {
                    let d = loop {
                        let d = MindustryState::gen(&mut cx.rng).datagram();
                        if d.len() <= 500 {
                            break d;
                        }
                    };
                    go!(OneShotUdp::new(&[0xfe, 0x01], vec![d]), None, |_s: &OneShotUdp, n: &Net| (sends_of(n) != vec![vec![0xfeu8, 0x01]]).then(|| "expected exactly FE 01".to_string()));
                }
                ProprietaryProtocol::Minecraft(kind) => {
                    let which: Variant = match kind {
                        None => *cx.rng.pick(&[Variant::Java, Variant::Bedrock, Variant::L16, Variant::L14, Variant::Lb18]),
                        Some(McKind::Java) => Variant::Java,
                        Some(McKind::Bedrock) => Variant::Bedrock,
                        Some(McKind::Legacy(LegacyGroup::V1_6)) => Variant::L16,
                        Some(McKind::Legacy(LegacyGroup::V1_4)) => Variant::L14,
                        Some(McKind::Legacy(LegacyGroup::VB1_8)) => Variant::Lb18,
                    };
                    let java = JavaState::gen(&mut cx.rng);
                    let bed = loop {
                        let b = BedrockState::gen(&mut cx.rng);
                        if b.known_mode && b.datagram().len() < 1000 {
                            break b;
                        }
                    };
                    let all: [Vec<u8>; 5] = [java.stream(&mut cx.rng), bed.datagram(), LegacyState::gen(&mut cx.rng, LegacyGroup::V1_6).stream(), LegacyState::gen(&mut cx.rng, LegacyGroup::V1_4).stream(), LegacyState::gen(&mut cx.rng, LegacyGroup::VB1_8).stream()];
                    let mut answers: [Option<Vec<u8>>; 5] = Default::default();
                    answers[which as usize] = Some(all[which as usize].clone());
                    let dport = expect_addr.port();
                    if kind.is_some() && cx.rng.chance(1, 3) {
                        // a server that answers nothing usable: an entry for one edition still emits that edition's
                        // request and nothing else
                        let na = *cx.rng.pick(&[NonAnswer::CloseEmpty, NonAnswer::Garbage, NonAnswer::Silent, NonAnswer::Truncated]);
                        let server = McServerModel::new(Default::default(), [na; 5], vec![0x05, 0x00, 0x03, b'{', b'}', b'!']);
                        go!(server, None, |s: &McServerModel, _n: &Net| {
                            let foreign: Vec<String> = s.requests.iter().filter(|(_, v, _)| *v != which).map(|(_, v, b)| format!("{v:?}:{}", hex(b))).collect();
                            cx.count("edition-specific-entry-against-a-failing-server");
                            (!foreign.is_empty() || s.requests.is_empty()).then(|| format!("the {which:?} entry emitted requests of other editions (or none): {foreign:?}"))
                        });
                        return;
                    }
                    let server = McServerModel::new(answers, [NonAnswer::CloseEmpty; 5], vec![]);
                    go!(server, None, |s: &McServerModel, _n: &Net| {
                        // an edition-specific entry emits only that edition's requests
                        if kind.is_some() {
                            if let Some((_, v, b)) = s.requests.iter().find(|(_, v, _)| *v != which) {
                                return Some(format!("the {which:?} entry also emitted a {v:?} request {}", hex(b)));
                            }
                        }
                        // the last request (the one that was answered) must be that variant's request
                        let (_, v, bytes) = s.requests.last()?.clone();
                        if v != which {
                            return Some(format!("last request identified as {v:?}, expected {which:?}"));
                        }
                        let ok = match which {
                            Variant::Java => bytes.starts_with(&java_reference("gamedig", -1, dport).concat()),
                            Variant::Bedrock => bytes == BEDROCK_PING,
                            Variant::L16 => bytes.starts_with(&[0xfe, 0x01, 0xfa]) && bytes.len() >= 5 && bytes.len() == 5 + 2 * u16::from_be_bytes([bytes[3], bytes[4]]) as usize,
                            Variant::L14 => bytes == [0xfe, 0x01],
                            Variant::Lb18 => bytes == [0xfe],
                        };
                        (!ok).then(|| format!("request for {which:?} is {}", hex(&bytes)))
                    });
                }
                _ => cx.observe("protocol family without a scripted model"),
            },
        }
    }
}

impl Check for C09 {
    fn id(&self) -> &'static str { "C09" }
    fn rule(&self) -> String {
        "transport-log monitor: (1) Valve challenge echo for every 4-byte word over {00,01,0a,0d,20,41,54,7f,80,fe,ff,5c} (20 736 words, exhaustive) + random words at info/players/rules with 1-3 consecutive rounds: the complete send log must equal the reference sequence built from the challenges the server issued; (2) GameSpy 3 decimal challenges (0, +-1, i32 bounds, leading +/zeros, random); (3) Java handshake for host names (empty, 255 bytes, non-ASCII) x protocol versions x ports against the wiki.vg encoding; (4) every GAMES entry x port given/omitted x IPv4/IPv6: every connection goes to the caller's address and the definition's port, and the complete request sequence of a valid exchange equals the protocol's reference. non-trivial = a valid exchange whose log matched; distinct by (case, request bytes)".into()
    }
    fn assumptions(&self) -> Vec<String> {
        vec![
            "reference requests as in DESIGN.md Appendix A; legacy 1.6 plugin-message ping (Q3) asserted only as FE 01 FA + a well-formed length-prefixed UTF-16BE string; the Java ping request's missing payload (Q6) is observe-only".into(),
            "the stratified enumeration of Valve challenges covers every byte class at every position (12^4 words) rather than all 2^32 values".into(),
            "default ports are the definitions table's (per-game modules are compared with it in C14)".into(),
        ]
    }
    fn total_cases(&self, tier: Tier) -> u64 { N_WORDS * 3 + tier.pick(100_000, 1_000_000) }
    fn exhaustive(&self, _tier: Tier) -> Option<bool> { Some(true) }
    fn case_label(&self, _tier: Tier, idx: u64) -> String { if idx < N_WORDS * 3 { "valve-challenge-enumeration".into() } else { "random".into() } }
    fn run_case(&mut self, cx: &mut Cx) {
        let idx = cx.idx;
        if idx < N_WORDS * 3 {
            let mut w = idx / 3;
            let mut word = [0u8; 4];
            for b in word.iter_mut() {
                *b = ALPHA[(w % 12) as usize];
                w /= 12;
            }
            let sec = (idx % 3) as usize;
            let rounds = 1 + (cx.rng.below(3) as u32);
            cx.count("valve-challenge-enumerated");
            self.valve_challenge(cx, word, sec, rounds);
            return;
        }
        let r = idx - N_WORDS * 3;
        let ngames = game_ids().len() as u64;
        match r % 8 {
            0 | 1 => {
                let word = [cx.rng.u8(), cx.rng.u8(), cx.rng.u8(), cx.rng.u8()];
                let sec = cx.rng.below(3) as usize;
                let rounds = cx.rng.below(4) as u32;
                self.valve_challenge(cx, word, sec, rounds);
            }
            2 => self.gs3_challenge(cx),
            3 => self.java_settings(cx),
            _ => {
                let k = r / 8;
                let gi = (k % ngames) as usize;
                let given = (k / ngames) % 2 == 0;
                let v6 = (k / (ngames * 2)) % 2 == 1;
                self.game_case(cx, gi, given, v6);
            }
        }
    }
    fn sufficient(&self, _tier: Tier, m: &Stats) -> Result<(), String> {
        let n = m.counters.get("valve-challenge-enumerated").copied().unwrap_or(0);
        if n < N_WORDS * 3 {
            return Err(format!("valve challenge enumeration ran {n} of {}", N_WORDS * 3));
        }
        let games = game_ids().len() - 1;
        let seen: std::collections::HashSet<&str> = m.shapes.keys().filter_map(|k| k.split('|').next()).collect();
        if seen.len() < games {
            let missing: Vec<&str> = game_ids().into_iter().filter(|g| *g != "eco" && !seen.contains(g)).collect();
            return Err(format!("games whose valid exchange never matched: {missing:?}"));
        }
        Ok(())
    }
    fn extra_coverage(&self, _tier: Tier, m: &Stats) -> Value { json!({"valve_challenge_words_enumerated": m.counters.get("valve-challenge-enumerated"), "game_cases_seen(game|port|ipversion)": m.shapes.len()}) }
}
