//! C20 — the game-id naming checker is total and self-consistent.

use crate::core::framework::{Check, Cx, Stats, Tier};
use crate::core::monitor::{guarded, norm_msg, Outcome};
use crate::core::rng::{hash64, Rng};
use gamedig_id_tests::{test_game_name_rules, test_single_game_rule};
use serde_json::{json, Value};
use std::collections::BTreeSet;

pub struct C20;

const WORDS: &[&str] = &["Dead", "Cells", "The", "Binding", "of", "Isaac", "Team", "Fortress", "Left", "Days", "to", "Die", "Star", "Wars", "Battlefront", "Unreal", "Tournament", "Grand", "Theft", "Auto", "Half", "Life", "Counter", "Strike", "Source", "Rising", "World", "Über", "Émile", "Наука", "Świat", "a", "Zz", "Ōkami", "Mod", "Online", "Day", "Dino", "Hour", "Europe", "Darkest", "Arma", "Mix", "Dim", "Vim", "Civil"];
const ROMANS: &[&str] = &["I", "II", "III", "IV", "V", "VI", "IX", "X", "XIV", "XL", "MMXX", "C", "D", "M"];
const EDITIONS: &[&str] = &["bedrock", "java", "Legacy 1.6", "pocket", "Steam", "Gold Edition", "2 remaster"];

#[derive(Debug, Clone, Default)]
struct Meta {
    leading_digits: usize,
    text_after_number_dash: bool,
    has_mod: bool,
}

fn number(rng: &mut Rng, meta: &mut Meta, leading: bool) -> String {
    let n = match rng.below(8) {
        0 => 1,
        1 => 2,
        2 => 4,
        3 => rng.usize(5, 9),
        4 => rng.usize(10, 20),
        _ => rng.usize(1, 4),
    };
    let mut s: String = (0 .. n).map(|i| if i == 0 { (b'1' + rng.below(9) as u8) as char } else { (b'0' + rng.below(10) as u8) as char }).collect();
    if rng.chance(1, 10) {
        s = format!("0{s}");
    }
    if leading {
        meta.leading_digits = s.len();
    }
    s
}

fn part(rng: &mut Rng, meta: &mut Meta, first: bool, n_words: usize) -> String {
    let mut out: Vec<String> = Vec::new();
    for i in 0 .. n_words {
        let w = match rng.below(14) {
            0 if !(first && i == 0) => rng.pick(ROMANS).to_string(),
            1 => number(rng, meta, first && i == 0),
            2 => {
                // acronym with dots
                let n = rng.usize(2, 6);
                let mut s = String::new();
                for _ in 0 .. n {
                    s.push((b'A' + rng.below(26) as u8) as char);
                    s.push('.');
                }
                if rng.bool() {
                    s.pop();
                }
                s
            }
            3 => format!("{}-{}", rng.pick(WORDS), rng.pick(WORDS)),
            4 => {
                let (a, b) = (rng.below(100), rng.below(100));
                format!("'{a:02}-'{b:02}")
            }
            5 => format!("{}:", rng.pick(WORDS)),
            6 => format!("{}{}", rng.pick(WORDS), number(rng, &mut Meta::default(), false)),
            7 => format!("{}'s", rng.pick(WORDS)),
            8 if rng.chance(1, 6) => {
                // text directly after "number-": documented as unsupported
                meta.text_after_number_dash = true;
                format!("{}-{}", rng.below(100), rng.pick(WORDS))
            }
            _ => rng.pick(WORDS).to_string(),
        };
        out.push(w);
    }
    out.join(" ")
}

fn gen_name(rng: &mut Rng) -> (String, Meta) {
    let mut meta = Meta::default();
    let n = match rng.below(6) {
        0 => 1,
        1 => 2,
        2 => 3,
        _ => rng.usize(1, 6),
    };
    let mut name = part(rng, &mut meta, true, n);
    if rng.chance(1, 4) {
        meta.has_mod = true;
        let k = rng.usize(1, 3);
        let m = part(rng, &mut meta, true, k);
        name = format!("{name} - {m}");
    }
    match rng.below(6) {
        0 => name.push_str(&format!(" ({})", 1990 + rng.below(40))),
        1 => name.push_str(&format!(" ({})", rng.pick(EDITIONS))),
        _ => {}
    }
    (name, meta)
}

fn expected_set(wrong: &str, name: &str) -> BTreeSet<String> { test_single_game_rule(wrong, name).into_iter().map(|f| f.expected_id).collect() }

impl Check for C20 {
    fn id(&self) -> &'static str { "C20" }
    fn miri_plan(&self, tier: Tier) -> Option<Vec<(u64, u64)>> {
        if tier != Tier::Thorough {
            return None;
        }
        // ~10 s per name under the interpreter (regex construction); the shipped table (case 0) is left to the native run
        Some((0 .. 16).map(|i| (1 + i * 12, 12)).collect())
    }
    fn rule(&self) -> String {
        "names generated from the documented grammar (ASCII and non-ASCII words, dotted acronyms, roman numerals at any non-first position, leading / inner / trailing numbers of 1-20 digits, glued letter-digit words, hyphenated compounds, '44-'45 style ranges, possessives, a bracketed year or edition, a ' - Mod' suffix) and lists of 1-4 such games. Oracle: no panic; for a single game the set E of expected ids reported for a wrong proposal is the same for two different wrong proposals, every member of E is accepted when proposed, and a candidate id (expected id, case change, truncation, random string) is accepted iff it is in E; the shipped GAMES table passes. non-trivial = a name for which E was computed and all members checked; distinct by name".into()
    }
    fn assumptions(&self) -> Vec<String> {
        vec![
            "names with text directly after 'number-' (documented as unsupported: the parser panics by design) are generated in an observe-only class".into(),
            "a leading number of more than 15 digits is observe-only (the longhand conversion of such numbers is outside any real game name)".into(),
            "wrong proposals are lower-case so that the lower-case rule does not add proposal-dependent entries to E".into(),
        ]
    }
    fn total_cases(&self, tier: Tier) -> u64 { 1 + tier.pick(300_000, 20_000_000) }
    fn run_case(&mut self, cx: &mut Cx) {
        if cx.idx == 0 {
            cx.eval();
            let (o, _) = guarded(|| test_game_name_rules(gamedig::GAMES.entries().map(|(id, g)| (*id, g.name))).len());
            match o {
                Outcome::Returned(0) => {
                    cx.count("shipped-table-passes");
                    cx.nontrivial(0x6a3e5);
                }
                Outcome::Returned(n) => cx.violation("C20 shipped definitions table fails the checker", || json!({"failures": n})),
                Outcome::Panicked(p) => cx.violation(format!("C20 panic on the shipped table at {}", p.loc), || json!({"panic": p.msg})),
                _ => {}
            }
            return;
        }
        if cx.idx % 5 == 4 {
            // a list of 1-4 games: totality only
            let n = cx.rng.usize(1, 4);
            let games: Vec<(String, String, Meta)> = (0 .. n)
                .map(|_| {
                    let (name, m) = gen_name(&mut cx.rng);
                    (cx.rng.ident(8).to_lowercase(), name, m)
                })
                .collect();
            cx.eval();
            if games.iter().any(|g| g.2.text_after_number_dash || g.2.leading_digits > 15) {
                cx.observe("list containing a name of an observe-only class");
                return;
            }
            let (o, _) = guarded(|| test_game_name_rules(games.iter().map(|(i, n, _)| (i.as_str(), n.as_str()))).len());
            match o {
                Outcome::Panicked(p) => cx.violation(format!("C20 panic (list) at {} msg=\"{}\"", p.loc, norm_msg(&p.msg)), || json!({"games": games.iter().map(|g| (&g.0, &g.1)).collect::<Vec<_>>(), "panic": p.msg})),
                _ => {
                    cx.count("lists-ok");
                    cx.nontrivial(hash64(format!("{:?}", games.iter().map(|g| &g.1).collect::<Vec<_>>()).as_bytes()));
                }
            }
            return;
        }
        let (name, meta) = gen_name(&mut cx.rng);
        cx.eval();
        if meta.text_after_number_dash {
            let (o, _) = guarded(|| test_single_game_rule("x", &name).len());
            cx.observe(&format!("text after 'number-': {}", if matches!(o, Outcome::Panicked(_)) { "panics (documented)" } else { "returns" }));
            return;
        }
        if meta.leading_digits > 15 {
            let (o, _) = guarded(|| test_single_game_rule("x", &name).len());
            cx.observe(&format!("leading number of more than 15 digits: {}", if matches!(o, Outcome::Panicked(_)) { "panics" } else { "returns" }));
            return;
        }
        let (o, _) = guarded(|| {
            let e1 = expected_set("zzzwrongidone", &name);
            let e2 = expected_set("qqq9wrong2", &name);
            let accepted: Vec<(String, bool)> = e1.iter().map(|e| (e.clone(), test_single_game_rule(e, &name).is_empty())).collect();
            (e1, e2, accepted)
        });
        match o {
            Outcome::Panicked(p) => cx.violation(format!("C20 panic at {} msg=\"{}\"", p.loc, norm_msg(&p.msg)), || json!({"name": name, "panic": p.msg})),
            Outcome::StepLimit { .. } => {}
            Outcome::Returned((e1, e2, accepted)) => {
                cx.shape(&format!("words={}|mod={}|E={}", name.split(' ').count().min(8), meta.has_mod, e1.len()));
                if e1 != e2 {
                    cx.violation("C20 expected-id depends on the wrong proposal", || json!({"name": name, "E(zzzwrongidone)": e1, "E(qqq9wrong2)": e2}));
                    return;
                }
                if e1.is_empty() {
                    cx.violation("C20 wrong proposal accepted", || json!({"name": name}));
                    return;
                }
                if let Some((e, _)) = accepted.iter().find(|(_, ok)| !ok) {
                    cx.violation("C20 reported expected id is itself rejected", || json!({"name": name, "expected_id": e, "E": e1}));
                    return;
                }
                // candidates
                let first = e1.iter().next().unwrap().clone();
                let cands: Vec<String> = vec![first.to_uppercase(), first.chars().take(first.chars().count().saturating_sub(1)).collect(), format!("{first}x"), cx.rng.ident(6).to_lowercase(), first.clone()];
                for c in cands {
                    let (o, _) = guarded(|| test_single_game_rule(&c, &name).is_empty());
                    match o {
                        Outcome::Returned(acc) => {
                            if acc != e1.contains(&c) {
                                cx.violation(if acc { "C20 accepts an id it does not report as expected" } else { "C20 rejects an id it reports as expected" }, || json!({"name": name, "candidate": c, "E": e1}));
                                return;
                            }
                        }
                        Outcome::Panicked(p) => {
                            cx.violation(format!("C20 panic at {} msg=\"{}\"", p.loc, norm_msg(&p.msg)), || json!({"name": name, "candidate": c, "panic": p.msg}));
                            return;
                        }
                        _ => {}
                    }
                }
                cx.nontrivial(hash64(name.as_bytes()));
                cx.sample(|| json!({"name": name, "E": e1}));
            }
        }
    }
    fn sufficient(&self, _tier: Tier, m: &Stats) -> Result<(), String> {
        if m.counters.get("shipped-table-passes").copied().unwrap_or(0) == 0 && !m.sig_counts.keys().any(|k| k.contains("shipped")) {
            return Err("the shipped table was not checked".into());
        }
        Ok(())
    }
    fn extra_coverage(&self, _tier: Tier, m: &Stats) -> Value { json!({"name_shapes_seen": m.shapes.len(), "lists_ok": m.counters.get("lists-ok")}) }
}
