//! C12 — timeouts bound every blocking step on real sockets; transport fidelity.
//!
//! Real sockets throughout: the hook is compiled in but no transport is installed on these threads,
//! so `UdpSocketImpl` / `TcpSocketImpl` run untouched.

use crate::core::framework::{verif_root, Check, Cx, Stats, Tier};
use crate::core::monitor::{guarded, kind_name, norm_msg, run_with, Outcome, DEFAULT_STEP_LIMIT};
use crate::core::net::{hex, unhex, ScriptServer};
use crate::core::proc;
use crate::core::real::serve;
use crate::core::rng::{hash64, Rng};
use crate::models::misc::{http_redirect_then_silent, http_stall, json_depth_at_end, http_once, EcoState};
use crate::props::hostile::{call, ep_name, seed_server, Ep, Settings};
use gamedig::verif_hook::{SocketTrait, TcpSocketImpl, UdpSocketImpl};
use gamedig::{GDErrorKind, TimeoutSettings};
use serde_json::{json, Value};
use std::io::{Read, Write};
use std::net::{IpAddr, Ipv4Addr, Ipv6Addr, SocketAddr};
use std::time::{Duration, Instant};

pub struct C12;

fn lo(v6: bool) -> IpAddr { if v6 { IpAddr::V6(Ipv6Addr::LOCALHOST) } else { IpAddr::V4(Ipv4Addr::LOCALHOST) } }

// ------------------------------------------------------------------------------------------------
// sockprobe (runs in a child process under strace)

/// `gdverif sockprobe <udp|tcp> <addr> <read_ms> <write_ms> <connect_ms> <payload hex>`
pub fn sockprobe_main(args: &[String]) -> i32 {
    let kind = args[0].as_str();
    let addr: SocketAddr = args[1].parse().expect("addr");
    let ms = |s: &str| -> Option<Duration> { if s == "none" { None } else { Some(Duration::from_millis(s.parse().unwrap())) } };
    // "default" = the caller passes no settings at all
    let ts = if args[2] == "default" { None } else { TimeoutSettings::new(ms(&args[2]), ms(&args[3]), ms(&args[4]), 0).ok() };
    let payload = unhex(&args[5]);
    let recv = args.get(6).map(|a| a != "norecv").unwrap_or(true);
    // marker so that the checker knows where the probe's own sockets start
    let _ = std::io::stderr().write_all(b"PROBE-BEGIN\n");
    let r: Result<(), GDErrorKind> = match kind {
        "udp" => UdpSocketImpl::new(&addr, &ts).and_then(|mut s| {
            s.send(&payload)?;
            if !recv {
                return Ok(());
            }
            s.receive(Some(64)).map(|_| ())
        }),
        _ => TcpSocketImpl::new(&addr, &ts).and_then(|mut s| {
            s.send(&payload)?;
            if !recv {
                return Ok(());
            }
            s.receive(None).map(|_| ())
        }),
    }
    .map_err(|e| e.kind);
    let _ = std::io::stderr().write_all(format!("PROBE-END {r:?}\n").as_bytes());
    0
}

/// `gdverif ecoprobe <ip> <port> <read_ms> <write_ms> <connect_ms>`: one Eco query (runs in a child under strace)
pub fn ecoprobe_main(args: &[String]) -> i32 {
    let ip: IpAddr = args[0].parse().expect("ip");
    let port: u16 = args[1].parse().expect("port");
    let ms = |s: &str| -> Option<Duration> { if s == "none" { None } else { Some(Duration::from_millis(s.parse().unwrap())) } };
    let ts = TimeoutSettings::new(ms(&args[2]), ms(&args[3]), ms(&args[4]), 0).ok();
    let _ = std::io::stderr().write_all(b"PROBE-BEGIN\n");
    let r = gamedig::games::eco::query_with_timeout(&ip, Some(port), &ts).map(|_| ()).map_err(|e| e.kind);
    let _ = std::io::stderr().write_all(format!("PROBE-END {r:?}\n").as_bytes());
    0
}

fn unescape(s: &str) -> Vec<u8> {
    // strace -xx string body: \xNN sequences only
    let b = s.as_bytes();
    let mut out = Vec::new();
    let mut i = 0;
    while i < b.len() {
        if b[i] == b'\\' && i + 3 < b.len() + 0 && b[i + 1] == b'x' {
            out.push(u8::from_str_radix(&s[i + 2 .. i + 4], 16).unwrap_or(0));
            i += 4;
        } else {
            out.push(b[i]);
            i += 1;
        }
    }
    out
}

fn first_quoted(s: &str) -> Option<Vec<u8>> {
    let a = s.find('"')?;
    let b = s[a + 1 ..].find('"')?;
    Some(unescape(&s[a + 1 .. a + 1 + b]))
}

#[derive(Debug, Default)]
struct FdTrace {
    family: String,
    stream: bool,
    rcv: Option<(i64, i64)>,
    snd: Option<(i64, i64)>,
    first_io_before_timeouts: bool,
    sent: Vec<Vec<u8>>,
    dest_ok: Option<bool>,
    connect_inprogress: bool,
    poll_timeout_ms: Option<i64>,
}

/// Offline checker of one strace log. Returns (problems, events seen).
fn check_trace(log: &str, addr: &SocketAddr, read_ms: Option<u64>, write_ms: Option<u64>, connect_ms: Option<u64>, payload: &[u8], tcp: bool) -> (Vec<String>, usize) {
    let mut fds: std::collections::BTreeMap<i32, FdTrace> = Default::default();
    let mut events = 0;
    let want_dest = |line: &str| -> bool {
        let port_ok = line.contains(&format!("htons({})", addr.port()));
        let ip_text = addr.ip().to_string();
        // addresses are hex-escaped strings too
        let ip_ok = {
            let mut ok = false;
            let mut rest = line;
            while let Some(a) = rest.find('"') {
                let r2 = &rest[a + 1 ..];
                if let Some(b) = r2.find('"') {
                    if unescape(&r2[.. b]) == ip_text.as_bytes() {
                        ok = true;
                    }
                    rest = &r2[b + 1 ..];
                } else {
                    break;
                }
            }
            ok
        };
        port_ok && ip_ok
    };
    for raw in log.lines() {
        let line = raw.trim_start_matches(|c: char| c.is_ascii_digit()).trim_start();
        let fd_of = |name: &str| -> Option<i32> { line.strip_prefix(name).and_then(|r| r.split(|c| c == ',' || c == ')').next()).and_then(|x| x.trim().parse().ok()) };
        if line.starts_with("socket(AF_INET") {
            if let Some(fd) = line.rsplit("= ").next().and_then(|x| x.trim().parse::<i32>().ok()) {
                events += 1;
                fds.insert(fd, FdTrace { family: if line.contains("AF_INET6") { "v6".into() } else { "v4".into() }, stream: line.contains("SOCK_STREAM"), ..Default::default() });
            }
        } else if let Some(fd) = fd_of("setsockopt(") {
            if let Some(t) = fds.get_mut(&fd) {
                events += 1;
                if let Some(v) = first_quoted(line) {
                    if v.len() == 16 {
                        let sec = i64::from_le_bytes(v[.. 8].try_into().unwrap());
                        let usec = i64::from_le_bytes(v[8 ..].try_into().unwrap());
                        if line.contains("SO_RCVTIMEO") {
                            t.rcv = Some((sec, usec));
                        } else if line.contains("SO_SNDTIMEO") {
                            t.snd = Some((sec, usec));
                        }
                    }
                }
            }
        } else if let Some(fd) = fd_of("connect(") {
            if let Some(t) = fds.get_mut(&fd) {
                events += 1;
                t.dest_ok = Some(want_dest(line));
                t.connect_inprogress = line.contains("EINPROGRESS");
            }
        } else if line.starts_with("poll(") || line.starts_with("ppoll(") {
            for (fd, t) in fds.iter_mut() {
                if line.contains(&format!("fd={fd},")) && line.contains("POLLOUT") && t.stream && t.poll_timeout_ms.is_none() {
                    events += 1;
                    // poll([...], 1, <ms>)
                    if let Some(ms) = line.split("], 1, ").nth(1).and_then(|r| r.split(')').next()).and_then(|x| x.trim().parse::<i64>().ok()) {
                        t.poll_timeout_ms = Some(ms);
                    }
                }
            }
        } else if let Some(fd) = fd_of("sendto(").or_else(|| fd_of("write(")).or_else(|| fd_of("sendmsg(")) {
            if let Some(t) = fds.get_mut(&fd) {
                events += 1;
                if t.rcv.is_none() || t.snd.is_none() {
                    t.first_io_before_timeouts = true;
                }
                if let Some(v) = first_quoted(line) {
                    t.sent.push(v);
                }
                if line.starts_with("sendto(") && !t.stream {
                    t.dest_ok = Some(want_dest(line));
                }
            }
        } else if let Some(fd) = fd_of("recvfrom(").or_else(|| fd_of("read(")).or_else(|| fd_of("recv(")) {
            if let Some(t) = fds.get_mut(&fd) {
                events += 1;
                if t.rcv.is_none() || t.snd.is_none() {
                    t.first_io_before_timeouts = true;
                }
            }
        }
    }
    let mut problems = Vec::new();
    if fds.is_empty() {
        problems.push("no socket was opened".to_string());
    }
    let tv = |ms: Option<u64>| -> (i64, i64) {
        match ms {
            None => (0, 0),
            Some(m) => ((m / 1000) as i64, ((m % 1000) * 1000) as i64),
        }
    };
    for (fd, t) in &fds {
        if t.stream != tcp {
            continue;
        }
        if t.rcv != Some(tv(read_ms)) {
            problems.push(format!("fd {fd}: SO_RCVTIMEO is {:?}, configured {:?}", t.rcv, tv(read_ms)));
        }
        if t.snd != Some(tv(write_ms)) {
            problems.push(format!("fd {fd}: SO_SNDTIMEO is {:?}, configured {:?}", t.snd, tv(write_ms)));
        }
        if t.first_io_before_timeouts {
            problems.push(format!("fd {fd}: data was sent or received before both timeouts were set"));
        }
        if t.dest_ok == Some(false) {
            problems.push(format!("fd {fd}: destination is not {addr}"));
        }
        if t.dest_ok.is_none() {
            problems.push(format!("fd {fd}: no send/connect seen"));
        }
        if t.sent.concat() != payload && t.dest_ok.is_some() {
            problems.push(format!("fd {fd}: bytes on the wire {} differ from the payload {}", hex(&t.sent.concat()), hex(payload)));
        }
        if tcp {
            if let Some(c) = connect_ms {
                match t.poll_timeout_ms {
                    Some(ms) if t.connect_inprogress => {
                        if ms > c as i64 || ms < (c as i64) - 20 {
                            problems.push(format!("fd {fd}: connect is polled with {ms} ms, configured {c} ms"));
                        }
                    }
                    _ => problems.push(format!("fd {fd}: connect was not a non-blocking connect + poll (connect timeout {c} ms not applied)")),
                }
            }
        }
    }
    (problems, events)
}

impl C12 {
    fn strace_case(&self, cx: &mut Cx) {
        let tcp = cx.rng.bool();
        let v6 = cx.rng.bool();
        let vals = [50u64, 150, 400, 1000, 2500];
        let (r, w, c) = (*cx.rng.pick(&vals), *cx.rng.pick(&vals), *cx.rng.pick(&vals));
        // any of the three may be None ("block indefinitely"): the others must still be applied. With no read
        // timeout the probe does not wait for a reply from the silent peer.
        let (r_o, w_o, c_o) = (if cx.rng.chance(1, 6) { None } else { Some(r) }, if cx.rng.chance(1, 5) { None } else { Some(w) }, if cx.rng.chance(1, 5) { None } else { Some(c) });
        // no settings at all: the documented defaults (4 s each) must be applied
        let no_settings = cx.rng.chance(1, 8);
        let (r_o, w_o, c_o) = if no_settings { (Some(4000), Some(4000), Some(4000)) } else { (r_o, w_o, c_o) };
        let opt = |o: Option<u64>| if no_settings { "default".to_string() } else { o.map(|v| v.to_string()).unwrap_or_else(|| "none".into()) };
        let payload: Vec<u8> = match cx.rng.below(4) {
            0 => vec![0xff, 0xff, 0xff, 0xff, b'T'],
            1 => cx.rng.bytes(1),
            2 => cx.rng.bytes(1200),
            _ => {
                let n = cx.rng.usize(2, 64);
                cx.rng.bytes(n)
            }
        };
        // a silent peer: a bound UDP socket that never answers / a listener that never accepts
        let ip = lo(v6);
        let (addr, _udp, _tcp) = if tcp {
            let l = match std::net::TcpListener::bind(SocketAddr::new(ip, 0)) {
                Ok(l) => l,
                Err(_) => return cx.inconclusive("cannot bind loopback listener"),
            };
            (l.local_addr().unwrap(), None, Some(l))
        } else {
            let u = match std::net::UdpSocket::bind(SocketAddr::new(ip, 0)) {
                Ok(u) => u,
                Err(_) => return cx.inconclusive("cannot bind loopback socket"),
            };
            (u.local_addr().unwrap(), Some(u), None)
        };
        let exe = std::env::current_exe().unwrap();
        let out = verif_root().join(".work").join(format!("strace-{}-{}.txt", std::process::id(), cx.idx));
        let mut cmd = std::process::Command::new("strace");
        cmd.args(["-f", "-xx", "-s", "70000", "-e", "trace=socket,bind,connect,setsockopt,poll,ppoll,sendto,sendmsg,recvfrom,recv,read,write", "-o"]).arg(&out).arg(&exe).args(["sockprobe", if tcp { "tcp" } else { "udp" }, &addr.to_string(), &opt(r_o), &opt(w_o), &opt(c_o), &hex(&payload), if r_o.is_some() && !no_settings { "recv" } else { "norecv" }]);
        let res = proc::run(cmd, Duration::from_secs(20));
        cx.eval();
        let log = std::fs::read_to_string(&out).unwrap_or_default();
        let _ = std::fs::remove_file(&out);
        let Ok(res) = res else { return cx.inconclusive("strace could not be run") };
        if res.timed_out || log.is_empty() {
            return cx.inconclusive("strace produced no log");
        }
        let stderr = String::from_utf8_lossy(&res.stderr).to_string();
        let (problems, events) = check_trace(&log, &addr, r_o, w_o, c_o, &payload, tcp);
        if r_o.is_none() || w_o.is_none() || c_o.is_none() {
            cx.count("strace-cases-with-a-None-timeout");
        }
        if no_settings {
            cx.count("strace-cases-with-no-settings(defaults)");
        }
        cx.count_n("syscall-events-checked", events as u64);
        let label = format!("strace|{}|{}", if tcp { "tcp" } else { "udp" }, if v6 { "v6" } else { "v4" });
        if problems.is_empty() {
            cx.shape(&label);
            cx.nontrivial(hash64(label.as_bytes()) ^ hash64(&payload) ^ r ^ (w << 12) ^ (c << 24));
            cx.sample(|| json!({"kind": label, "timeouts_ms": [r_o, w_o, c_o], "payload_len": payload.len(), "syscall_events": events, "probe": stderr.lines().last()}));
        } else {
            let class = if problems.iter().any(|p| p.contains("SO_RCVTIMEO")) {
                "read-timeout-not-applied"
            } else if problems.iter().any(|p| p.contains("SO_SNDTIMEO")) {
                "write-timeout-not-applied"
            } else if problems.iter().any(|p| p.contains("connect")) {
                "connect-timeout-not-applied"
            } else if problems.iter().any(|p| p.contains("destination")) {
                "wrong-destination"
            } else if problems.iter().any(|p| p.contains("bytes on the wire")) {
                "bytes-modified"
            } else if problems.iter().any(|p| p.contains("no send")) {
                "nothing-sent"
            } else {
                "other"
            };
            cx.violation(format!("C12 syscall {class} {label}"), || json!({"problems": problems, "addr": addr.to_string(), "timeouts_ms": [r_o, w_o, c_o], "probe_stderr": stderr, "trace_excerpt": log.lines().filter(|l| l.contains("socket(") || l.contains("setsockopt") || l.contains("sendto") || l.contains("connect(") || l.contains("poll")).take(30).collect::<Vec<_>>()}));
        }
    }

    /// an Eco query against an HTTP server that stalls in the middle of the body, under strace: the number of reads
    /// that ran into the timeout is the number of attempts (one), whatever the JSON nesting depth at the stall
    fn strace_eco_case(&self, cx: &mut Cx) {
        let st = EcoState::gen(&mut cx.rng);
        let body = st.body(&mut cx.rng, None).into_bytes();
        if body.len() < 40 {
            return;
        }
        let cut = cx.rng.usize(body.len() / 3, body.len() - 2);
        let prefix = body[.. cut].to_vec();
        let depth = json_depth_at_end(&prefix);
        let chunked = cx.rng.bool();
        let t = *cx.rng.pick(&[200u64, 400, 700]);
        let Ok((port, stop, h)) = http_stall(prefix, body.len(), chunked, Duration::from_secs(25)) else { return cx.inconclusive("cannot bind loopback listener") };
        let exe = std::env::current_exe().unwrap();
        let out = verif_root().join(".work").join(format!("strace-eco-{}-{}.txt", std::process::id(), cx.idx));
        let mut cmd = std::process::Command::new("strace");
        cmd.args(["-f", "-e", "trace=socket,connect,setsockopt,sendto,recvfrom,recv,read", "-o"]).arg(&out).arg(&exe).args(["ecoprobe", "127.0.0.1", &port.to_string(), &t.to_string(), &t.to_string(), &t.to_string()]);
        let res = proc::run(cmd, Duration::from_secs(20));
        stop.store(true, std::sync::atomic::Ordering::SeqCst);
        let _ = h.join();
        cx.eval();
        let log = std::fs::read_to_string(&out).unwrap_or_default();
        let _ = std::fs::remove_file(&out);
        let Ok(res) = res else { return cx.inconclusive("strace could not be run") };
        if res.timed_out || log.is_empty() {
            return cx.inconclusive("strace produced no log (eco)");
        }
        let stderr = String::from_utf8_lossy(&res.stderr).to_string();
        // sockets of the probe and the reads on them that ended by the timeout
        let mut socks: Vec<String> = Vec::new();
        let (mut timed_out_reads, mut events) = (0usize, 0usize);
        for raw in log.lines() {
            let line = raw.trim_start_matches(|c: char| c.is_ascii_digit()).trim_start();
            if line.starts_with("socket(AF_INET") {
                if let Some(fd) = line.rsplit("= ").next() {
                    socks.push(fd.trim().to_string());
                }
            }
            for call in ["recvfrom(", "recv(", "read("] {
                if let Some(rest) = line.strip_prefix(call) {
                    let fd = rest.split(',').next().unwrap_or("").trim().to_string();
                    if socks.contains(&fd) {
                        events += 1;
                        if line.contains("EAGAIN") || line.contains("EWOULDBLOCK") {
                            timed_out_reads += 1;
                        }
                    }
                }
            }
        }
        cx.count_n("syscall-events-checked", events as u64);
        let result = stderr.lines().find(|l| l.starts_with("PROBE-END")).unwrap_or("").to_string();
        let label = format!("strace|eco-stall|{}", if chunked { "chunked" } else { "content-length" });
        let detail = || json!({"case": label, "json_nesting_depth_at_the_stall": depth, "timeout_ms": t, "reads_that_timed_out": timed_out_reads, "probe": result, "reads_on_the_socket": events});
        if events == 0 {
            return cx.inconclusive("no read on the probe's socket in the strace log (eco)");
        }
        if timed_out_reads > 1 {
            cx.violation(format!("C12 syscall eco mid-body-stall waits-for-several-timeouts depth-class={}", depth.min(3)), detail);
        } else if !result.contains("Err(PacketReceive)") {
            cx.violation(format!("C12 eco mid-body-stall wrong-error-class got={}", result.trim_start_matches("PROBE-END ").chars().take(40).collect::<String>()), detail);
        } else {
            cx.shape(&label);
            cx.shape(&format!("eco-stall|depth={}", depth.min(4)));
            cx.nontrivial(hash64(label.as_bytes()) ^ (cut as u64) ^ (t << 32));
            cx.count("eco-stall-one-timeout");
        }
    }

    /// a query against a real loopback server that falls silent at a chosen point
    fn behaviour_case(&self, cx: &mut Cx) {
        let eps = [Ep::Valve(1), Ep::Gs1, Ep::Gs2, Ep::Gs3, Ep::Quake(3), Ep::Unreal2, Ep::McJava, Ep::McBedrock, Ep::McLegacySpecific(1), Ep::Mindustry, Ep::Ffow, Ep::Jc2m, Ep::Savage2];
        let ep = eps[(cx.idx % eps.len() as u64) as usize].clone();
        let v6 = cx.rng.chance(1, 3);
        let timeout = *cx.rng.pick(&[50u64, 150, 400]);
        let retries = cx.rng.below(3) as usize;
        // where the server falls silent: after k datagrams / writes (0 = before the first reply); None = refuses
        let silent_after = cx.rng.below(4) as usize;
        let refuse = cx.rng.chance(1, 6);
        // record what a valid exchange delivers, then serve only the first k datagrams
        let mut srng = Rng::for_case(cx.seed, "c12-seed", cx.idx);
        let (script, _ok) = crate::props::hostile::record_seed(&ep, &Settings::fixed(), &mut srng);
        let cut: Vec<Vec<Vec<u8>>> = script.iter().map(|c| c.iter().take(silent_after).cloned().collect()).collect();
        let mut server = ScriptServer::new(cut);
        server.tcp_close = false; // keep connections open and silent
        server.repeat_last = false;
        let running = match serve(lo(v6), Box::new(server)) {
            Ok(r) => r,
            Err(_) => return cx.inconclusive("cannot bind loopback server"),
        };
        let mut addr = running.addr;
        if refuse {
            // a port nobody listens on: take the port of a socket we close again
            drop(running);
            let l = std::net::TcpListener::bind(SocketAddr::new(lo(v6), 0)).unwrap();
            addr = l.local_addr().unwrap();
            drop(l);
            self.timed_query(cx, &ep, addr, timeout, retries, true, silent_after, v6);
            return;
        }
        self.timed_query(cx, &ep, addr, timeout, retries, false, silent_after, v6);
        drop(running);
    }

    #[allow(clippy::too_many_arguments)]
    fn timed_query(&self, cx: &mut Cx, ep: &Ep, addr: SocketAddr, timeout: u64, retries: usize, refuse: bool, silent_after: usize, v6: bool) {
        let d = Duration::from_millis(timeout);
        let mut s = Settings::fixed();
        s.retries = retries;
        s.port = Some(addr.port());
        s.ts_override = TimeoutSettings::new(Some(d), Some(d), Some(d), retries).ok();
        s.ip_override = Some(addr.ip());
        let bound = Duration::from_millis(timeout * (retries as u64 + 1) * 8) + Duration::from_secs(if std::env::var("VERIF_UNDER_MEMCHECK").is_ok() { 30 } else { 3 });
        let mut breaches = 0;
        let mut last: Option<(Duration, String)> = None;
        for attempt in 0 .. 3 {
            let t0 = Instant::now();
            let (o, _) = guarded(|| call(ep, &s));
            let el = t0.elapsed();
            cx.eval();
            let class = match &o {
                Outcome::Returned(Ok(())) => "Ok".to_string(),
                Outcome::Returned(Err(k)) => kind_name(k).to_string(),
                Outcome::Panicked(p) => {
                    cx.violation(format!("C12 panic at {} msg=\"{}\"", p.loc, norm_msg(&p.msg)), || json!({"entry_point": ep_name(ep), "addr": addr.to_string()}));
                    return;
                }
                Outcome::StepLimit { .. } => "step".into(),
            };
            last = Some((el, class.clone()));
            if el <= bound {
                break;
            }
            breaches += 1;
            let _ = attempt;
        }
        let (el, class) = last.unwrap();
        let label = format!("behaviour|{}|{}|{}|silent_after={}", ep_name(ep), if v6 { "v6" } else { "v4" }, if refuse { "refused" } else { "silent" }, silent_after);
        cx.max("slowest_query_ms", el.as_millis() as u64, || json!({"case": label, "timeout_ms": timeout, "retries": retries, "bound_ms": bound.as_millis() as u64}));
        if breaches == 3 {
            cx.violation(format!("C12 timeout-not-bounding {} {}", crate::props::hostile::ep_family(ep), if v6 { "v6" } else { "v4" }), || json!({"case": label, "elapsed_ms": el.as_millis() as u64, "bound_ms": bound.as_millis() as u64, "timeout_ms": timeout, "retries": retries, "basis": "wallclock, reproduced 3 times"}));
            return;
        }
        // error class: a silent or refusing server can never give Ok unless the cut script happened to be complete
        let acceptable = match class.as_str() {
            "PacketReceive" | "AutoQuery" => true,
            // a send can only fail against a port nobody listens on (ICMP unreachable / connection refused)
            "PacketSend" | "SocketConnect" => refuse,
            "Ok" => !refuse, // the first k datagrams may already be the whole exchange
            // a truncated exchange can also surface as a decode error of what did arrive
            _ => !refuse && silent_after > 0,
        };
        if !acceptable {
            cx.violation(format!("C12 wrong-error-class {} {} got={class}", crate::props::hostile::ep_family(ep), if v6 { "v6" } else { "v4" }), || json!({"case": label, "class": class, "addr": addr.to_string()}));
            return;
        }
        cx.shape(&format!("behaviour|{}|{}|{}", crate::props::hostile::ep_family(ep), if v6 { "v6" } else { "v4" }, if refuse { "refused" } else { "silent" }));
        cx.nontrivial(hash64(label.as_bytes()) ^ timeout ^ ((retries as u64) << 20));
        cx.count(&format!("behaviour-ok|{class}"));
    }

    /// an HTTP server that answers with a redirect and then falls silent (on the same or on a new connection): the
    /// follow-up request is bounded by the read timeout like the first one
    fn eco_redirect_case(&self, cx: &mut Cx) {
        let timeout = *cx.rng.pick(&[150u64, 400]);
        let d = Duration::from_millis(timeout);
        let ts = TimeoutSettings::new(Some(d), Some(d), Some(d), 0).ok();
        let Ok((port, stop, h)) = http_redirect_then_silent(Duration::from_secs(40)) else { return cx.inconclusive("cannot bind loopback listener") };
        let ip = lo(false);
        let (tx, rx) = std::sync::mpsc::channel();
        let t0 = Instant::now();
        let q = std::thread::spawn(move || {
            let r = guarded(|| gamedig::games::eco::query_with_timeout(&ip, Some(port), &ts).map(|_| ()).map_err(|e| e.kind)).0;
            let _ = tx.send(r);
        });
        let bound = Duration::from_millis(timeout * 2 * 8) + Duration::from_secs(3);
        let r = rx.recv_timeout(bound + Duration::from_secs(6));
        let el = t0.elapsed();
        stop.store(true, std::sync::atomic::Ordering::SeqCst);
        let requests = h.join().unwrap_or(0);
        let _ = q.join();
        cx.eval();
        let detail = |what: &str| json!({"what": what, "case": "eco|redirect-then-silent", "timeout_ms": timeout, "elapsed_ms": el.as_millis() as u64, "bound_ms": bound.as_millis() as u64, "requests_seen_by_the_server": requests});
        match r {
            Err(_) => cx.violation("C12 timeout-not-bounding eco after-a-redirect", || detail("the follow-up request of a redirect was still waiting after the deadline; it ended only when the server side was torn down")),
            Ok(Outcome::Panicked(p)) => cx.violation(format!("C12 panic at {} msg=\"{}\"", p.loc, norm_msg(&p.msg)), || detail(&p.msg)),
            Ok(Outcome::Returned(Ok(()))) => cx.violation("C12 eco ok-without-server", || detail("no status was ever sent")),
            Ok(Outcome::Returned(Err(k))) => {
                if el > bound {
                    cx.inconclusive("eco redirect: elapsed above the bound once (not re-run)");
                } else {
                    cx.shape("eco|redirect-then-silent");
                    cx.nontrivial(hash64(b"eco-redirect") ^ timeout ^ ((requests as u64) << 20));
                    cx.count(&format!("eco-redirect-ok|{}", kind_name(&k)));
                }
            }
            _ => {}
        }
    }

    fn eco_behaviour(&self, cx: &mut Cx) {
        // the kinds of Eco case are stratified over the case index so that every one of them runs in every tier:
        // every fourth is the redirect case, the others cycle through (mode, timeout variant)
        let k = cx.idx / 13;
        if k % 4 == 3 {
            return self.eco_redirect_case(cx);
        }
        let j = k - k / 4;
        let v6 = cx.rng.bool();
        let timeout = *cx.rng.pick(&[50u64, 150, 400]);
        let d = Duration::from_millis(timeout);
        let mode = j % 3;
        // the read timeout must bound the wait whether or not the write / connect timeouts are set
        let none_variant = if mode == 0 { (j / 3) % 6 } else { 0 };
        // variant 4: no settings at all = the documented defaults (4 s each) must be in force
        let timeout = if none_variant == 4 { 4000 } else { timeout };
        let ts = match none_variant {
            4 => None,
            // variant 5: a connect timeout far above the read timeout must not stretch the wait for a reply
            5 => TimeoutSettings::new(Some(d), Some(d), Some(Duration::from_secs(25)), 0).ok(),
            1 => TimeoutSettings::new(Some(d), None, Some(d), 0).ok(),
            2 => TimeoutSettings::new(Some(d), Some(d), None, 0).ok(),
            3 => TimeoutSettings::new(Some(d), None, None, 0).ok(),
            _ => TimeoutSettings::new(Some(d), Some(d), Some(d), 0).ok(),
        };
        let ip = lo(v6);
        let listener = match std::net::TcpListener::bind(SocketAddr::new(ip, 0)) {
            Ok(l) => l,
            Err(_) => return cx.inconclusive("cannot bind loopback listener"),
        };
        let port = listener.local_addr().unwrap().port();
        let label = format!("eco|{}|{}{}", if v6 { "v6" } else { "v4" }, ["accept-never-write", "refused", "valid"][mode as usize], ["", "|write=None", "|connect=None", "|write=None,connect=None", "|no-settings(defaults)", "|connect=25s"][none_variant as usize]);
        let t0;
        let o;
        match mode {
            0 => {
                // accepted by the kernel backlog, never answered
                // run on a helper thread with a deadline: if no timeout is applied the query blocks until the
                // listener is dropped, which resets the connection and lets the thread end
                t0 = Instant::now();
                let (tx, rx) = std::sync::mpsc::channel();
                let h = std::thread::spawn(move || {
                    let r = guarded(|| gamedig::games::eco::query_with_timeout(&ip, Some(port), &ts).map(|_| ()).map_err(|e| e.kind)).0;
                    let _ = tx.send(r);
                });
                let deadline = Duration::from_millis(timeout * if none_variant == 4 { 2 } else { 8 }) + Duration::from_secs(6);
                match rx.recv_timeout(deadline) {
                    Ok(r) => {
                        o = r;
                        drop(listener);
                        let _ = h.join();
                    }
                    Err(_) => {
                        drop(listener);
                        let _ = rx.recv_timeout(Duration::from_secs(5));
                        cx.eval();
                        cx.violation(format!("C12 timeout-not-bounding eco {}{}", if v6 { "v6" } else { "v4" }, if none_variant == 5 { " with-a-long-connect-timeout" } else if none_variant == 4 { " with-default-settings" } else if none_variant > 0 { " with-a-None-timeout" } else { "" }), || json!({"case": label, "what": "the query was still blocked after the deadline; it only returned (if at all) once the server side was torn down", "deadline_ms": deadline.as_millis() as u64, "timeout_ms": timeout}));
                        return;
                    }
                }
            }
            1 => {
                drop(listener);
                t0 = Instant::now();
                o = guarded(|| gamedig::games::eco::query_with_timeout(&ip, Some(port), &ts).map(|_| ()).map_err(|e| e.kind)).0;
            }
            _ => {
                drop(listener);
                let st = EcoState::gen(&mut cx.rng);
                let body = st.body(&mut cx.rng, None);
                // http_once binds 127.0.0.1 only: valid mode runs on v4
                let Ok((p, h)) = http_once(body.into_bytes(), false) else { return cx.inconclusive("cannot bind") };
                let ip4 = lo(false);
                let ts5 = TimeoutSettings::new(Some(Duration::from_secs(5)), Some(Duration::from_secs(5)), Some(Duration::from_secs(5)), 0).ok();
                t0 = Instant::now();
                // with a host name among the settings (any spelling) the request still goes to the caller's address
                let host = cx.rng.pick(&["", "Eco.GameDig.Example", "eco.example.org", "LocalHost", "xn--mnchen-3ya.example", "münchen.example", "127.1", "UPPER.CASE.EXAMPLE."]).to_string();
                o = if host.is_empty() {
                    guarded(|| gamedig::games::eco::query_with_timeout(&ip4, Some(p), &ts5).map(|_| ()).map_err(|e| e.kind)).0
                } else {
                    cx.count("eco-valid-with-a-host-name-setting");
                    let g = gamedig::GAMES.get("eco").unwrap();
                    let x = gamedig::ExtraRequestSettings::default().set_hostname(host.clone());
                    guarded(|| gamedig::query_with_timeout_and_extra_settings(g, &ip4, Some(p), ts5, Some(x)).map(|_| ()).map_err(|e| e.kind)).0
                };
                // unblock the one-shot server if the request went somewhere else
                let _ = std::net::TcpStream::connect_timeout(&SocketAddr::new(ip4, p), Duration::from_millis(200));
                let _ = h.join();
            }
        }
        let el = t0.elapsed();
        cx.eval();
        let bound = Duration::from_millis(timeout * 8) + Duration::from_secs(3);
        match (mode, o) {
            (_, Outcome::Panicked(p)) => cx.violation(format!("C12 panic at {} msg=\"{}\"", p.loc, norm_msg(&p.msg)), || json!({"case": label})),
            (2, Outcome::Returned(Ok(()))) => {
                cx.nontrivial(hash64(label.as_bytes()) ^ timeout);
                cx.shape(&label);
            }
            (2, Outcome::Returned(Err(k))) => cx.violation(format!("C12 eco valid-server-failed kind={}", kind_name(&k)), || json!({"case": label})),
            (_, Outcome::Returned(Ok(()))) => cx.violation("C12 eco ok-without-server", || json!({"case": label})),
            (_, Outcome::Returned(Err(k))) => {
                if el > bound {
                    cx.violation(format!("C12 timeout-not-bounding eco {}", if v6 { "v6" } else { "v4" }), || json!({"case": label, "elapsed_ms": el.as_millis() as u64, "bound_ms": bound.as_millis() as u64}));
                } else if !matches!(k, GDErrorKind::InvalidInput | GDErrorKind::PacketSend | GDErrorKind::PacketReceive | GDErrorKind::SocketConnect) {
                    cx.violation(format!("C12 wrong-error-class eco got={}", kind_name(&k)), || json!({"case": label, "kind": kind_name(&k), "what": "a silent or refusing HTTP server must give a send/receive/connect-class error"}));
                } else if matches!(k, GDErrorKind::InvalidInput) {
                    cx.violation(format!("C12 eco address-rejected {}", if v6 { "v6" } else { "v4" }), || json!({"case": label, "kind": kind_name(&k), "what": "the caller's address could not even be turned into a request"}));
                } else {
                    cx.nontrivial(hash64(label.as_bytes()) ^ timeout);
                    cx.shape(&label);
                    cx.count(&format!("eco-ok|{}", kind_name(&k)));
                }
            }
            _ => {}
        }
    }

    /// one blocking step under stray traffic: the queried server is silent while a third party sends datagrams to the
    /// client's port every timeout/4. A single `receive` returns within the read timeout - with a stray datagram or
    /// with a timeout error - it never waits for as long as the stray traffic lasts. (Whole queries are not judged
    /// here: a protocol that collects parts until a terminator may rightly keep reading while parts keep arriving.)
    fn udp_stray_case(&self, cx: &mut Cx) {
        let v6 = cx.rng.bool();
        let timeout = *cx.rng.pick(&[120u64, 300]);
        let Ok(server) = std::net::UdpSocket::bind(SocketAddr::new(lo(v6), 0)) else { return cx.inconclusive("cannot bind loopback socket") };
        let Ok(stray) = std::net::UdpSocket::bind(SocketAddr::new(lo(v6), 0)) else { return cx.inconclusive("cannot bind loopback socket") };
        let addr = server.local_addr().unwrap();
        server.set_read_timeout(Some(Duration::from_millis(20))).ok();
        let stop = std::sync::Arc::new(std::sync::atomic::AtomicBool::new(false));
        let stop2 = stop.clone();
        let junk: Vec<u8> = match cx.rng.below(3) {
            0 => vec![],
            1 => cx.rng.bytes(20),
            _ => b"\xff\xff\xff\xffprint\n\\hostname\\stray\n".to_vec(),
        };
        let period = Duration::from_millis(timeout / 4);
        let junk_for_thread = junk.clone();
        let h = std::thread::spawn(move || -> u64 {
            let junk = junk_for_thread;
            let mut client: Option<SocketAddr> = None;
            let mut buf = [0u8; 2048];
            let mut sent = 0u64;
            let mut last = Instant::now();
            while !stop2.load(std::sync::atomic::Ordering::SeqCst) {
                if let Ok((_, from)) = server.recv_from(&mut buf) {
                    client = Some(from);
                }
                if let Some(c) = client {
                    if last.elapsed() >= period {
                        let _ = stray.send_to(&junk, c);
                        sent += 1;
                        last = Instant::now();
                    }
                }
            }
            sent
        });
        let d = Duration::from_millis(timeout);
        let ts = TimeoutSettings::new(Some(d), Some(d), Some(d), 0).ok();
        let bound = Duration::from_millis(timeout * 4) + Duration::from_secs(3);
        let t0 = Instant::now();
        let (tx, rx) = std::sync::mpsc::channel();
        let q = std::thread::spawn(move || {
            let (o, _) = guarded(|| {
                let mut s = UdpSocketImpl::new(&addr, &ts)?;
                s.send(b"\xff\xff\xff\xffstatus\0")?;
                // three receives in a row: each of them is one blocking step
                let mut got = Vec::new();
                for _ in 0 .. 3 {
                    let t = Instant::now();
                    let r = s.receive(None);
                    got.push((t.elapsed(), r.is_ok()));
                }
                Ok::<_, gamedig::GDError>(got)
            });
            let _ = tx.send(o);
        });
        let r = rx.recv_timeout(bound * 3 + Duration::from_secs(5));
        let el = t0.elapsed();
        stop.store(true, std::sync::atomic::Ordering::SeqCst);
        let sent = h.join().unwrap_or(0);
        let _ = q.join();
        cx.eval();
        let label = format!("udp-stray|{}", if v6 { "v6" } else { "v4" });
        let detail = |what: &str| json!({"what": what, "case": label, "timeout_ms": timeout, "elapsed_ms": el.as_millis() as u64, "bound_per_receive_ms": bound.as_millis() as u64, "stray_datagrams_sent": sent, "stray_payload": hex(&junk)});
        match r {
            Err(_) => cx.violation(format!("C12 timeout-not-bounding udp-stray {}", if v6 { "v6" } else { "v4" }), || detail("a receive was still blocked long after its timeout; it ended only when the stray traffic stopped")),
            Ok(Outcome::Panicked(p)) => cx.violation(format!("C12 panic at {} msg=\"{}\"", p.loc, norm_msg(&p.msg)), || detail(&p.msg)),
            Ok(Outcome::Returned(Ok(steps))) => {
                if steps.iter().any(|(t, _)| *t > bound) {
                    cx.inconclusive("udp-stray: one receive above the bound once (not re-run)");
                } else {
                    cx.shape(&label);
                    cx.nontrivial(hash64(label.as_bytes()) ^ timeout ^ hash64(&junk));
                    cx.count(&format!("udp-stray-ok|receives-returning-data={}", steps.iter().filter(|(_, ok)| *ok).count()));
                }
            }
            Ok(Outcome::Returned(Err(e))) => cx.inconclusive(&format!("udp-stray: socket could not be set up ({:?})", e.kind)),
            _ => {}
        }
    }

    /// a TCP server that sends the first bytes of a valid reply (or all of it) and then keeps the connection open
    /// without closing it: every attempt ends by the read timeout, so the query fails with PacketReceive in time
    fn tcp_hold_case(&self, cx: &mut Cx) {
        use crate::models::minecraft::{JavaState, LegacyState};
        use gamedig::games::minecraft::LegacyGroup;
        let v6 = cx.rng.bool();
        let legacy = cx.rng.chance(1, 3);
        let stream = if legacy { LegacyState::gen(&mut cx.rng, LegacyGroup::V1_6).stream() } else { JavaState::gen(&mut cx.rng).stream(&mut cx.rng) };
        let cut = match cx.rng.below(4) {
            0 => stream.len(),
            1 => 1,
            2 => stream.len() - 1,
            _ => cx.rng.usize(1, stream.len()),
        };
        let prefix = stream[.. cut].to_vec();
        let timeout = *cx.rng.pick(&[100u64, 250]);
        let retries = cx.rng.below(3) as usize;
        let Ok(listener) = std::net::TcpListener::bind(SocketAddr::new(lo(v6), 0)) else { return cx.inconclusive("cannot bind loopback listener") };
        let addr = listener.local_addr().unwrap();
        let stop = std::sync::Arc::new(std::sync::atomic::AtomicBool::new(false));
        let stop2 = stop.clone();
        let h = std::thread::spawn(move || -> usize {
            listener.set_nonblocking(true).ok();
            let mut conns: Vec<(std::net::TcpStream, bool)> = Vec::new();
            let mut request_bytes = 0usize;
            let mut buf = [0u8; 4096];
            while !stop2.load(std::sync::atomic::Ordering::SeqCst) {
                if let Ok((s, _)) = listener.accept() {
                    s.set_nonblocking(true).ok();
                    conns.push((s, false));
                }
                for (s, answered) in conns.iter_mut() {
                    if let Ok(n) = s.read(&mut buf) {
                        request_bytes += n;
                        if n > 0 && !*answered {
                            *answered = true;
                            s.set_nonblocking(false).ok();
                            let _ = s.write_all(&prefix);
                            let _ = s.flush();
                            s.set_nonblocking(true).ok();
                        }
                    }
                }
                std::thread::sleep(Duration::from_micros(500));
            }
            request_bytes
        });
        let d = Duration::from_millis(timeout);
        let ts = TimeoutSettings::new(Some(d), Some(d), Some(d), retries).ok();
        let bound = Duration::from_millis(timeout * (retries as u64 + 1) * 8) + Duration::from_secs(3);
        let mut last = None;
        let mut breaches = 0;
        for _ in 0 .. 3 {
            let t0 = Instant::now();
            let (o, _) = guarded(|| if legacy { gamedig::games::minecraft::protocol::query_legacy_specific(LegacyGroup::V1_6, &addr, ts).map(|_| ()).map_err(|e| e.kind) } else { gamedig::games::minecraft::protocol::query_java(&addr, ts, None).map(|_| ()).map_err(|e| e.kind) });
            let el = t0.elapsed();
            last = Some((o, el));
            if el <= bound {
                break;
            }
            breaches += 1;
        }
        stop.store(true, std::sync::atomic::Ordering::SeqCst);
        let seen = h.join().unwrap_or(0);
        cx.eval();
        let (o, el) = last.unwrap();
        let label = format!("tcp-hold|{}|{}|{}", if legacy { "legacy1.6" } else { "java" }, if v6 { "v6" } else { "v4" }, if cut == stream.len() { "whole-reply" } else { "partial-reply" });
        let detail = |what: &str| json!({"what": what, "case": label, "reply_bytes_sent": cut, "reply_bytes_total": stream.len(), "timeout_ms": timeout, "retries": retries, "elapsed_ms": el.as_millis() as u64, "bound_ms": bound.as_millis() as u64, "request_bytes_seen_by_the_server": seen});
        match o {
            Outcome::Panicked(p) => cx.violation(format!("C12 panic at {} msg=\"{}\"", p.loc, norm_msg(&p.msg)), || detail(&p.msg)),
            _ if breaches == 3 => cx.violation(format!("C12 timeout-not-bounding tcp-hold {}", if v6 { "v6" } else { "v4" }), || detail("wallclock, reproduced 3 times")),
            Outcome::Returned(Err(GDErrorKind::PacketReceive)) => {
                cx.shape(&label);
                cx.nontrivial(hash64(label.as_bytes()) ^ hash64(&stream) ^ (cut as u64) ^ timeout ^ ((retries as u64) << 40));
                cx.count("tcp-hold-ok");
            }
            Outcome::Returned(r) => {
                let got = match &r {
                    Ok(()) => "Ok".to_string(),
                    Err(k) => kind_name(k).to_string(),
                };
                cx.violation(format!("C12 wrong-error-class tcp-hold {} got={got}", if cut == stream.len() { "whole-reply" } else { "partial-reply" }), || detail("a connection that is never closed ends every attempt by the read timeout: expected PacketReceive"))
            }
            _ => {}
        }
    }

    /// direct Socket::send / receive against an echo peer
    fn integrity_case(&self, cx: &mut Cx) {
        let v6 = cx.rng.bool();
        let tcp = cx.rng.chance(1, 3);
        let sizes = [0usize, 1, 2, 1023, 1024, 1025, 6144, 65507];
        let n = if cx.rng.bool() { *cx.rng.pick(&sizes) } else { cx.rng.usize(0, 9000) };
        let n = if v6 && n > 65000 { 65000 } else { n };
        let payload = cx.rng.bytes(n);
        let ip = lo(v6);
        let ts = TimeoutSettings::new(Some(Duration::from_secs(2)), Some(Duration::from_secs(2)), Some(Duration::from_secs(2)), 0).ok();
        cx.eval();
        let label = format!("integrity|{}|{}", if tcp { "tcp" } else { "udp" }, if v6 { "v6" } else { "v4" });
        if tcp {
            let Ok(l) = std::net::TcpListener::bind(SocketAddr::new(ip, 0)) else { return cx.inconclusive("bind") };
            let addr = l.local_addr().unwrap();
            let expect = payload.len();
            let h = std::thread::spawn(move || -> Vec<u8> {
                let (mut s, _) = l.accept().unwrap();
                s.set_read_timeout(Some(Duration::from_secs(3))).ok();
                let mut got = vec![0u8; expect];
                let mut off = 0;
                while off < expect {
                    match s.read(&mut got[off ..]) {
                        Ok(0) | Err(_) => break,
                        Ok(k) => off += k,
                    }
                }
                got.truncate(off);
                let _ = s.write_all(&got);
                got
            });
            let (o, _) = guarded(|| {
                let mut s = TcpSocketImpl::new(&addr, &ts)?;
                if !payload.is_empty() {
                    s.send(&payload)?;
                }
                s.receive(None)
            });
            let seen = h.join().unwrap_or_default();
            match o {
                Outcome::Returned(Ok(back)) => {
                    if seen != payload {
                        cx.violation(format!("C12 integrity peer-saw-different-bytes {label} len-class={}", if n > 1024 { "large" } else { "small" }), || json!({"sent": payload.len(), "peer_saw": seen.len()}));
                    } else if back != payload {
                        cx.violation(format!("C12 integrity received-differs {label}"), || json!({"sent": payload.len(), "received": back.len()}));
                    } else {
                        cx.nontrivial(hash64(&payload) ^ 0x7c9);
                        cx.shape(&label);
                    }
                }
                Outcome::Returned(Err(e)) => cx.violation(format!("C12 integrity error {label} kind={}", kind_name(&e.kind)), || json!({"len": n, "addr": addr.to_string()})),
                Outcome::Panicked(p) => cx.violation(format!("C12 panic at {} msg=\"{}\"", p.loc, norm_msg(&p.msg)), || json!({"len": n})),
                _ => {}
            }
            return;
        }
        let Ok(peer) = std::net::UdpSocket::bind(SocketAddr::new(ip, 0)) else { return cx.inconclusive("bind") };
        peer.set_read_timeout(Some(Duration::from_secs(3))).ok();
        let addr = peer.local_addr().unwrap();
        // what the peer sends back: its own datagram of a chosen size, so that truncation to the requested size can be seen
        let reply_len = *cx.rng.pick(&[0usize, 1, 63, 64, 65, 1024, 1025, 2000]);
        let reply = cx.rng.bytes(reply_len);
        let reply2 = reply.clone();
        let h = std::thread::spawn(move || -> (Vec<u8>, Option<SocketAddr>) {
            let mut buf = vec![0u8; 70_000];
            match peer.recv_from(&mut buf) {
                Ok((k, src)) => {
                    let _ = peer.send_to(&reply2, src);
                    (buf[.. k].to_vec(), Some(src))
                }
                Err(_) => (vec![], None),
            }
        });
        let req_size = *cx.rng.pick(&[None, Some(1usize), Some(64), Some(1024), Some(6144)]);
        let (o, _) = guarded(|| {
            let mut s = UdpSocketImpl::new(&addr, &ts)?;
            s.send(&payload)?;
            s.receive(req_size)
        });
        let (seen, _src) = h.join().unwrap_or_default();
        match o {
            Outcome::Returned(Ok(back)) => {
                let cap = req_size.unwrap_or(1024);
                let expect: &[u8] = &reply[.. reply.len().min(cap)];
                if seen != payload {
                    cx.violation(format!("C12 integrity peer-saw-different-bytes {label} len-class={}", if n > 1024 { "large" } else { "small" }), || json!({"sent": payload.len(), "peer_saw": seen.len()}));
                } else if back != expect {
                    cx.violation(format!("C12 integrity received-differs {label}"), || json!({"reply_len": reply.len(), "requested": req_size, "received": back.len()}));
                } else {
                    cx.nontrivial(hash64(&payload) ^ hash64(&reply) ^ 0x1d9);
                    cx.shape(&label);
                }
            }
            Outcome::Returned(Err(e)) => cx.violation(format!("C12 integrity error {label} kind={}", kind_name(&e.kind)), || json!({"len": n, "addr": addr.to_string(), "source": format!("{:?}", e.source)})),
            Outcome::Panicked(p) => cx.violation(format!("C12 panic at {} msg=\"{}\"", p.loc, norm_msg(&p.msg)), || json!({"len": n})),
            _ => {}
        }
    }

    /// the same reactive model server scripted and over loopback must give the same result
    fn fidelity_case(&self, cx: &mut Cx) {
        let eps = [Ep::Valve(1), Ep::Valve(3), Ep::Gs1, Ep::Gs2, Ep::Gs3, Ep::Quake(1), Ep::Quake(3), Ep::Unreal2, Ep::McJava, Ep::McBedrock, Ep::McLegacySpecific(0), Ep::McAuto, Ep::Mindustry, Ep::Ffow, Ep::Jc2m, Ep::Savage2, Ep::TheShip];
        let ep = eps[(cx.idx % eps.len() as u64) as usize].clone();
        let base = cx.rng.clone();
        let mut s = Settings::fixed();
        s.retries = 0;
        // scripted
        let mut r1 = base.clone();
        let server = seed_server(&ep, &mut r1);
        let scripted = run_with(server, DEFAULT_STEP_LIMIT, || crate::props::hostile::call_render(&ep, &s));
        // real
        let mut r2 = base.clone();
        let server = seed_server(&ep, &mut r2);
        let Ok(running) = serve(lo(false), server) else { return cx.inconclusive("cannot bind loopback server") };
        let mut s2 = s.clone();
        s2.port = Some(running.addr.port());
        s2.ip_override = Some(running.addr.ip());
        let d = Duration::from_millis(1500);
        s2.ts_override = TimeoutSettings::new(Some(d), Some(d), Some(d), 0).ok();
        // the scripted run used the same port-independent entry point; only the address differs
        let (real, _) = guarded(|| crate::props::hostile::call_render(&ep, &s2));
        drop(running);
        cx.eval();
        let a = match scripted.outcome {
            Outcome::Returned(r) => r,
            _ => return,
        };
        let b = match real {
            Outcome::Returned(r) => r,
            Outcome::Panicked(p) => {
                cx.violation(format!("C12 panic at {} msg=\"{}\"", p.loc, norm_msg(&p.msg)), || json!({"entry_point": ep_name(&ep)}));
                return;
            }
            _ => return,
        };
        if a == b {
            cx.count("fidelity-identical");
            cx.shape(&format!("fidelity|{}", ep_name(&ep)));
            cx.nontrivial(hash64(format!("{a:?}").as_bytes()) ^ 0xf1de);
        } else {
            // a port number can legitimately appear in a request (java handshake) but never in a result
            let (sa, sb) = (format!("{a:?}"), format!("{b:?}"));
            let pos = sa.bytes().zip(sb.bytes()).position(|(x, y)| x != y).unwrap_or(sa.len().min(sb.len()));
            let around = |t: &str| t.chars().skip(pos.saturating_sub(80)).take(200).collect::<String>();
            cx.violation(format!("C12 scripted-vs-real differ {}", crate::props::hostile::ep_family(&ep)), || json!({"entry_point": ep_name(&ep), "first_difference_at": pos, "scripted_around": around(&sa), "real_around": around(&sb)}));
        }
    }
}

impl Check for C12 {
    fn id(&self) -> &'static str { "C12" }
    fn memcheck_plan(&self, tier: Tier) -> Option<(crate::core::framework::MemMode, Vec<(u64, u64)>)> {
        if tier != Tier::Thorough {
            return None;
        }
        let total = self.total_cases(tier);
        let n = 26u64.min(total / 16);
        Some((crate::core::framework::MemMode::Harness, (0 .. 16).map(|i| (i * (total / 16), n)).collect()))
    }
    fn level(&self) -> &'static str { "fault_enumeration" }
    fn rule(&self) -> String {
        "real loopback sockets. (1) syscall log: a child running UdpSocketImpl/TcpSocketImpl new+send+receive under strace -f for UDP/TCP x IPv4/IPv6 x timeout triples (each member Some or None) x payloads; an offline checker asserts SO_RCVTIMEO/SO_SNDTIMEO equal to the configured values on every socket before its first I/O, a non-blocking connect polled with the configured connect timeout, wire bytes equal to the payload and the destination equal to the caller's address; an Eco query against an HTTP server that stalls in the middle of the body (any JSON nesting depth, Content-Length or chunked) performs exactly one read that runs into the timeout and fails with PacketReceive. (2) behaviour: 13 protocol entry points + Eco against loopback servers that fall silent after 0-3 replies, keep a TCP connection open without writing, or refuse (Eco also with the write and/or connect timeout None, with no settings at all = the 4 s defaults, with a connect timeout far above the read timeout, and against a server that redirects and then falls silent), for timeouts {50,150,400} ms x retries 0-2 x IPv4/IPv6: error class and elapsed <= (retries+1) x 8 x timeout + 3 s (a breach is re-run twice; only a 3-fold breach counts). a TCP server that sends part or all of a reply and then holds the connection open must give PacketReceive in time; under stray datagrams from a third party every timeout/4, each single UDP receive still returns within its timeout. (3) integrity: direct send/receive against an echo peer for payload sizes {0,1,2,1023,1024,1025,6144,65507} and random, reply truncated to the requested size. (4) fidelity: the same reactive model server scripted and over loopback gives identical results. non-trivial = a case whose oracle ran to a verdict; distinct by (kind, parameters, payload)".into()
    }
    fn assumptions(&self) -> Vec<String> {
        vec![
            "wall-clock verdicts use generous slack and need three consecutive breaches; the load-independent part is the syscall log".into(),
            "strace attaches with ptrace to a child of the worker; if ptrace is unavailable those cases are inconclusive".into(),
            "'refused' = a loopback port nobody listens on".into(),
            "HTTP: ureq's call() is one step covering connect, send and the wait for the status line, and the library maps any failure of it to PacketSend; for a never-answering or refusing HTTP server PacketSend / PacketReceive / SocketConnect are all accepted as 'matching class', a stall inside the body must be PacketReceive".into(),
        ]
    }
    fn total_cases(&self, tier: Tier) -> u64 { tier.pick(520, 8_000) }
    fn run_case(&mut self, cx: &mut Cx) {
        match cx.idx % 13 {
            2 if (cx.idx / 13) % 2 == 0 => self.strace_eco_case(cx),
            0 | 1 | 2 => self.strace_case(cx),
            6 if (cx.idx / 13) % 2 == 1 => self.tcp_hold_case(cx),
            5 if (cx.idx / 13) % 3 == 1 => self.udp_stray_case(cx),
            3 | 4 | 5 | 6 => self.behaviour_case(cx),
            7 => self.eco_behaviour(cx),
            8 | 9 | 10 => self.integrity_case(cx),
            _ => self.fidelity_case(cx),
        }
    }
    fn sufficient(&self, _tier: Tier, m: &Stats) -> Result<(), String> {
        for k in ["strace|udp|v4", "strace|tcp|v4", "integrity|udp|v4", "integrity|tcp|v4"] {
            if !m.shapes.contains_key(k) {
                return Err(format!("no passing case of kind {k}"));
            }
        }
        if m.counters.get("fidelity-identical").copied().unwrap_or(0) < 20 {
            return Err("fewer than 20 scripted-vs-real comparisons".into());
        }
        Ok(())
    }
    fn extra_coverage(&self, _tier: Tier, m: &Stats) -> Value {
        json!({"syscall_events": m.counters.get("syscall-events-checked"), "eco_mid_body_stalls_with_exactly_one_timed_out_read": m.counters.get("eco-stall-one-timeout"), "strace_cases_with_a_None_timeout": m.counters.get("strace-cases-with-a-None-timeout"), "fidelity_identical": m.counters.get("fidelity-identical"), "behaviour_outcomes": m.counters.iter().filter(|(k, _)| k.starts_with("behaviour-ok|") || k.starts_with("eco-ok|")).collect::<std::collections::BTreeMap<_, _>>()})
    }
    fn budget_s(&self, tier: Tier) -> u64 { tier.pick(150, 1200) }
}
