//! C19 — the CLI prints a well-formed, faithful document or a clean error.

use crate::core::framework::{verif_root, Check, Cx, Stats, Tier};
use crate::core::monitor::{guarded, Outcome};
use crate::core::net::Server;
use crate::core::proc;
use crate::core::real::serve;
use crate::core::rng::{hash64, Rng};
use crate::models::misc::{http_once, EcoState};
use crate::models::unreal2::{U2Server, UBehaviour, UState};
use crate::props::hostile::{game_ids, seed_server, Ep};
use base64::Engine as _;
use gamedig::protocols::types::CommonResponse;
use gamedig::TimeoutSettings;
use serde_json::{json, Value};
use std::net::{IpAddr, Ipv4Addr};
use std::time::Duration;

pub struct C19;

const FORMATS: [&str; 6] = ["debug", "json-pretty", "json", "xml", "bson-hex", "bson-base64"];
const MODES: [&str; 2] = ["generic", "protocol-specific"];
const GAMES: [&str; 20] = ["teamfortress2", "counterstrike", "theship", "css", "unrealtournament", "hce", "crysiswars", "quake1", "quake2", "q3a", "unrealtournament2004", "minecraftjava", "minecraftbedrock", "minecraftlegacy16", "minecraft", "ffow", "savage2", "jc2m", "mindustry", "eco"];

fn cli() -> std::path::PathBuf { verif_root().join(".work/cli-target/debug/gamedig_cli") }

// ------------------------------------------------------------------------------------------------
// strict XML well-formedness checker for the subset the CLI emits

fn is_name_start(c: char) -> bool {
    matches!(c, ':' | 'A'..='Z' | '_' | 'a'..='z' | '\u{C0}'..='\u{D6}' | '\u{D8}'..='\u{F6}' | '\u{F8}'..='\u{2FF}' | '\u{370}'..='\u{37D}' | '\u{37F}'..='\u{1FFF}' | '\u{200C}'..='\u{200D}' | '\u{2070}'..='\u{218F}' | '\u{2C00}'..='\u{2FEF}' | '\u{3001}'..='\u{D7FF}' | '\u{F900}'..='\u{FDCF}' | '\u{FDF0}'..='\u{FFFD}' | '\u{10000}'..='\u{EFFFF}')
}
fn is_name_char(c: char) -> bool { is_name_start(c) || matches!(c, '-' | '.' | '0'..='9' | '\u{B7}' | '\u{0300}'..='\u{036F}' | '\u{203F}'..='\u{2040}') }

/// Ok(leaf texts) | Err(reason class, detail)
pub fn check_xml(doc: &str) -> Result<Vec<String>, (&'static str, String)> {
    let mut s = doc.trim_end_matches('\n');
    let mut version11 = false;
    if let Some(rest) = s.strip_prefix("<?xml") {
        let end = rest.find("?>").ok_or(("declaration", "unterminated XML declaration".to_string()))?;
        let decl = &rest[.. end];
        version11 = decl.contains("version=\"1.1\"");
        if !version11 && !decl.contains("version=\"1.0\"") {
            return Err(("declaration", format!("unknown version in {decl:?}")));
        }
        s = &rest[end + 2 ..];
    }
    let chars: Vec<char> = s.chars().collect();
    let mut i = 0;
    let mut stack: Vec<String> = Vec::new();
    let mut leaves: Vec<String> = Vec::new();
    let mut text = String::new();
    let mut had_child = vec![false];
    let mut roots = 0;
    let legal_text_char = |c: char| -> bool {
        if c == '\u{0}' {
            return false;
        }
        if version11 {
            // restricted characters must be written as character references
            !matches!(c, '\u{1}'..='\u{8}' | '\u{B}'..='\u{C}' | '\u{E}'..='\u{1F}' | '\u{7F}'..='\u{84}' | '\u{86}'..='\u{9F}' | '\u{FFFE}' | '\u{FFFF}')
        } else {
            matches!(c, '\u{9}' | '\u{A}' | '\u{D}' | '\u{20}'..='\u{D7FF}' | '\u{E000}'..='\u{FFFD}' | '\u{10000}'..='\u{10FFFF}')
        }
    };
    while i < chars.len() {
        let c = chars[i];
        if c == '<' {
            // tag
            let close = chars[i ..].iter().position(|x| *x == '>').ok_or(("tag", "unterminated tag".to_string()))? + i;
            let inner: String = chars[i + 1 .. close].iter().collect();
            i = close + 1;
            if let Some(name) = inner.strip_prefix('/') {
                let open = stack.pop().ok_or(("balance", format!("closing tag </{name}> without an open element")))?;
                if open != name {
                    return Err(("balance", format!("</{name}> closes <{open}>")));
                }
                let hc = had_child.pop().unwrap_or(false);
                if !hc {
                    leaves.push(std::mem::take(&mut text));
                } else if !text.trim().is_empty() {
                    return Err(("mixed-content", format!("text {text:?} next to child elements in <{name}>")));
                } else {
                    text.clear();
                }
                continue;
            }
            let (name, empty) = match inner.strip_suffix('/') {
                Some(n) => (n.to_string(), true),
                None => (inner.clone(), false),
            };
            let mut cs = name.chars();
            let ok = match cs.next() {
                Some(f) => is_name_start(f) && cs.all(is_name_char),
                None => false,
            };
            if !ok {
                return Err(("element-name", format!("{name:?} is not an XML name")));
            }
            if stack.is_empty() {
                roots += 1;
                if roots > 1 {
                    return Err(("multiple-roots", "more than one root element".into()));
                }
            }
            if let Some(h) = had_child.last_mut() {
                *h = true;
            }
            if !text.trim().is_empty() {
                return Err(("mixed-content", format!("text {text:?} before <{name}>")));
            }
            text.clear();
            if empty {
                leaves.push(String::new());
            } else {
                stack.push(name);
                had_child.push(false);
            }
        } else if c == '&' {
            let semi = chars[i ..].iter().take(12).position(|x| *x == ';').ok_or(("reference", "unterminated entity reference".to_string()))? + i;
            let ent: String = chars[i + 1 .. semi].iter().collect();
            let ch = match ent.as_str() {
                "lt" => '<',
                "gt" => '>',
                "amp" => '&',
                "apos" => '\'',
                "quot" => '"',
                e if e.starts_with("#x") => u32::from_str_radix(&e[2 ..], 16).ok().and_then(char::from_u32).ok_or(("reference", format!("bad character reference &{e};")))?,
                e if e.starts_with('#') => e[1 ..].parse::<u32>().ok().and_then(char::from_u32).ok_or(("reference", format!("bad character reference &{e};")))?,
                e => return Err(("reference", format!("unknown entity &{e};"))),
            };
            text.push(ch);
            i = semi + 1;
        } else {
            if stack.is_empty() {
                if !c.is_whitespace() {
                    return Err(("text-outside-root", format!("character {c:?} outside the root element")));
                }
            } else if !legal_text_char(c) {
                return Err(("illegal-character", format!("U+{:04X} may not appear literally in XML {}", c as u32, if version11 { "1.1" } else { "1.0" })));
            } else if c == '>' && i >= 2 && chars[i - 1] == ']' && chars[i - 2] == ']' {
                // CharData ::= [^<&]* - ([^<&]* ']]>' [^<&]*)
                return Err(("cdata-end-in-text", "the sequence ]]> appears literally in character data".to_string()));
            }
            // end-of-line handling of a conforming parser: literal CR LF, CR NEL, CR, NEL, LS become LF
            if c == '\r' {
                if matches!(chars.get(i + 1), Some('\n') | Some('\u{85}')) {
                    i += 1;
                }
                text.push('\n');
            } else if version11 && (c == '\u{85}' || c == '\u{2028}') {
                text.push('\n');
            } else {
                text.push(c);
            }
            i += 1;
        }
    }
    if !stack.is_empty() {
        return Err(("balance", format!("unclosed elements {stack:?}")));
    }
    if roots != 1 {
        return Err(("no-root", "no root element".into()));
    }
    Ok(leaves)
}

fn json_leaves(v: &Value, out: &mut Vec<String>) {
    match v {
        // an empty map is written as an empty element (an empty array as nothing at all)
        Value::Object(m) => {
            let before = out.len();
            m.values().for_each(|x| json_leaves(x, out));
            // an element without child elements (empty map, or a map of empty arrays) is an empty leaf
            if out.len() == before {
                out.push(String::new());
            }
        }
        Value::Array(a) => a.iter().for_each(|x| json_leaves(x, out)),
        Value::Null => out.push(String::new()),
        Value::String(s) => out.push(s.clone()),
        other => out.push(other.to_string()),
    }
}

/// structural equality with numbers compared by value (BSON widens integer and float types)
fn json_equiv(a: &Value, b: &Value) -> bool {
    match (a, b) {
        (Value::Number(x), Value::Number(y)) => {
            if let (Some(i), Some(j)) = (x.as_i64(), y.as_i64()) {
                return i == j;
            }
            if let (Some(i), Some(j)) = (x.as_u64(), y.as_u64()) {
                return i == j;
            }
            match (x.as_f64(), y.as_f64()) {
                (Some(i), Some(j)) => i == j || (i - j).abs() <= f64::EPSILON * i.abs().max(j.abs()) * 4.0 || (i as f32) == (j as f32),
                _ => false,
            }
        }
        (Value::Object(x), Value::Object(y)) => {
            x.len() == y.len()
                && x.iter().all(|(k, v)| {
                    y.get(k)
                        .map(|w| {
                            // a set (unreal2 mutators) is serialised in iteration order: compare as a set
                            if k == "mutators" {
                                if let (Value::Array(a), Value::Array(b)) = (v, w) {
                                    let mut a: Vec<String> = a.iter().map(|e| e.to_string()).collect();
                                    let mut b: Vec<String> = b.iter().map(|e| e.to_string()).collect();
                                    a.sort();
                                    b.sort();
                                    return a == b;
                                }
                            }
                            json_equiv(v, w)
                        })
                        .unwrap_or(false)
                })
        }
        (Value::Array(x), Value::Array(y)) => x.len() == y.len() && x.iter().zip(y).all(|(v, w)| json_equiv(v, w)),
        // NaN / infinities have no JSON number: serde_json writes null
        (Value::Null, Value::Object(o)) | (Value::Object(o), Value::Null) => o.contains_key("$numberDouble"),
        (x, y) => x == y,
    }
}

/// a server for the game + how to reach it (port); kept alive by the returned guard
enum Live {
    Model(crate::core::real::Running),
    Http(u16, Option<std::thread::JoinHandle<String>>),
}
impl Live {
    fn port(&self) -> u16 {
        match self {
            Live::Model(r) => r.addr.port(),
            Live::Http(p, _) => *p,
        }
    }
}

fn start_server(id: &str, rng: &mut Rng, stray_unreal2: bool, ip: IpAddr, extremes: bool) -> Option<Live> {
    if id == "eco" {
        let st = EcoState::gen(rng);
        let body = st.body(rng, None);
        let (p, h) = http_once(body.into_bytes(), rng.bool()).ok()?;
        return Some(Live::Http(p, Some(h)));
    }
    let idx = game_ids().iter().position(|x| *x == id)?;
    let valve_app = match id {
        "teamfortress2" => Some(440u32),
        "css" => Some(240),
        _ => None,
    };
    let server: Box<dyn Server> = if let (Some(app), true) = (valve_app, extremes || rng.chance(1, 3)) {
        // 64-bit identifiers at the edges of what the output formats can carry (2^53, 2^63, 2^64-1)
        use crate::models::valve::{A2sServer, State};
        use gamedig::protocols::valve::Engine;
        let mut st = State::gen(rng, &Engine::new(app), app, 2, 2);
        st.layout = crate::models::valve::Layout::Source;
        st.protocol = 17;
        st.appid16 = app as u16;
        st.edf = Some(st.edf.unwrap_or(0) | 0x10 | 0x01);
        st.steam_id = *rng.pick(&[1u64 << 63, u64::MAX, (1 << 53) + 1, i64::MAX as u64, (1u64 << 63) + 1, u64::MAX - 1, (1u64 << 63) + (1 << 10) + 1, 0]);
        st.game_id = (*rng.pick(&[0u64, 1 << 39, 1 << 40]) << 24) | app as u64;
        Box::new(A2sServer::new(vec![st.info_message()], vec![st.players_message()], vec![st.rules_message()]))
    } else if stray_unreal2 {
        let mut st = UState::gen(rng, 2, 3);
        st.num_players = 2;
        let mut rules = st.rules_datagrams(1);
        // a players datagram that arrives while the client is still collecting rules (delayed / duplicated datagram)
        rules.extend(st.players_datagrams(1, true));
        let mut s = U2Server::new(st.info_datagram(), rules.clone(), st.players_datagrams(1, true));
        s.plan[1] = vec![UBehaviour::Answer(rules)];
        Box::new(s)
    } else {
        seed_server(&Ep::Generic(idx), rng)
    };
    serve(ip, server).ok().map(Live::Model)
}

/// characters at the edges of the XML name classes (allowed neighbours and excluded code points), and ASCII punctuation
const NAME_EDGE: &[char] = &[
    '\u{37e}', '\u{37d}', '\u{37f}', '\u{d7}', '\u{d6}', '\u{d8}', '\u{f7}', '\u{f6}', '\u{f8}', '\u{b7}', '\u{2ff}', '\u{300}', '\u{36f}', '\u{370}', '\u{1fff}', '\u{2000}', '\u{200b}', '\u{200c}', '\u{200d}', '\u{200e}',
    '\u{203e}', '\u{203f}', '\u{2040}', '\u{2041}', '\u{206f}', '\u{2070}', '\u{218f}', '\u{2190}', '\u{2bff}', '\u{2c00}', '\u{2fef}', '\u{2ff0}', '\u{3000}', '\u{3001}', '\u{d7ff}', '\u{e000}', '\u{f8ff}', '\u{f900}', '\u{fdcf}', '\u{fdd0}',
    '\u{fdef}', '\u{fdf0}', '\u{fffd}', '\u{10000}', '\u{effff}', '\u{f0000}', ' ', '!', '"', '#', '$', '%', '&', '\'', '(', ')', '*', '+', ',', '-', '.', '/', '0', ':', ';', '<', '=', '>', '?', '@', '[', ']', '^', '_', '`', '{', '|', '}', '~', '\u{7f}', '\u{85}', '\u{a0}',
];

impl C19 {
    /// one server variable whose name has the k-th edge character in the middle, one with it in front: the XML document
    /// must stay well-formed and carry both values
    fn name_edge_case(&self, cx: &mut Cx, k: usize) {
        use crate::models::gamespy::OneShotUdp;
        use crate::models::quake::{QState, Ver};
        let c = NAME_EDGE[k % NAME_EDGE.len()];
        let mut st = QState::gen(&mut cx.rng, Ver::Two, 1, 0);
        st.extras = vec![(format!("mid{c}dle"), "value-one".to_string()), (format!("{c}front"), "value-two".to_string()), (format!("back{c}"), "value-three".to_string())];
        st.alternates.clear();
        let d = st.encode(&mut cx.rng);
        let lo = IpAddr::V4(Ipv4Addr::LOCALHOST);
        let Ok(live) = serve(lo, Box::new(OneShotUdp::new(&st.request(), vec![d]))) else { return cx.inconclusive("cannot start loopback server") };
        let mode = if k % 2 == 0 { "protocol-specific" } else { "generic" };
        let mut cmd = crate::core::framework::wrapped_command(&cli());
        cmd.args(["query", "-g", "quake2", "-i", "127.0.0.1", "-p", &live.addr.port().to_string(), "-f", "xml", "-o", mode, "--read-timeout", "2"]);
        let out = proc::run(cmd, Duration::from_secs(30));
        drop(live);
        cx.eval();
        let Ok(out) = out else { return cx.inconclusive("cannot run gamedig_cli") };
        let stdout = String::from_utf8_lossy(&out.stdout).to_string();
        let detail = |what: String| json!({"what": what, "character": format!("U+{:04X}", c as u32), "mode": mode, "exit": out.code, "stdout": stdout.chars().take(1200).collect::<String>(), "stderr": String::from_utf8_lossy(&out.stderr).chars().take(300).collect::<String>()});
        if out.code != Some(0) {
            cx.violation("C19 valid-server nonzero-exit name-edge", || detail("exit".into()));
            return;
        }
        match check_xml(&stdout) {
            Err((class, why)) => cx.violation(format!("C19 malformed format=xml class={class} mode={mode} family=Quake"), || detail(why.clone())),
            Ok(leaves) => {
                let missing: Vec<&str> = if mode == "generic" { vec![] } else { ["value-one", "value-two", "value-three"].into_iter().filter(|v| !leaves.iter().any(|l| l == v)).collect() };
                if missing.is_empty() {
                    cx.count("name-edge-ok");
                    cx.nontrivial(hash64(format!("name-edge {k} {mode}").as_bytes()));
                } else {
                    cx.violation(format!("C19 unfaithful format=xml mode={mode} family=Quake"), || detail(format!("values missing: {missing:?}")));
                }
            }
        }
    }

    fn valid_case(&self, cx: &mut Cx) {
        let id = GAMES[(cx.idx % GAMES.len() as u64) as usize];
        let fmt = FORMATS[((cx.idx / GAMES.len() as u64) % 6) as usize];
        let mode = MODES[((cx.idx / (GAMES.len() as u64 * 6)) % 2) as usize];
        let stray = id == "unrealtournament2004" && cx.rng.chance(1, 3);
        let base = cx.rng.clone();
        // how the caller names the host: an IPv4 literal, an IPv6 literal (plain or bracketed), or a name
        let form = if id == "eco" { 0 } else { cx.rng.below(10) };
        let (lo, host_arg): (IpAddr, String) = match form {
            1 => match std::net::ToSocketAddrs::to_socket_addrs(&("localhost", 0)).ok().and_then(|mut a| a.next()) {
                Some(a) => (a.ip(), "localhost".to_string()),
                None => (IpAddr::V4(Ipv4Addr::LOCALHOST), "127.0.0.1".to_string()),
            },
            2 => (IpAddr::V6(std::net::Ipv6Addr::LOCALHOST), "::1".to_string()),
            3 => (IpAddr::V6(std::net::Ipv6Addr::LOCALHOST), "[::1]".to_string()),
            _ => (IpAddr::V4(Ipv4Addr::LOCALHOST), "127.0.0.1".to_string()),
        };
        let game = gamedig::GAMES.get(id).unwrap();
        // the protocol-specific documents carry the 64-bit identifiers: always drive their edge values there
        let extremes = mode != "generic" && cx.idx % 3 != 0;
        // 1. the library's own answer to this server
        let mut r1 = base.clone();
        let Some(live) = start_server(id, &mut r1, stray, lo, extremes) else { return cx.inconclusive("cannot start loopback server") };
        let d = Duration::from_secs(2);
        let ts = TimeoutSettings::new(Some(d), Some(d), Some(d), 0).ok();
        let port = live.port();
        let (lib, _) = guarded(|| {
            gamedig::query_with_timeout_and_extra_settings(game, &lo, Some(port), ts, None).map(|r| {
                let v = if mode == "generic" { serde_json::to_value(r.as_json()) } else { serde_json::to_value(r.as_original()) };
                (v.unwrap_or(Value::Null), format!("{:?}", r.as_json().name))
            })
        });
        drop(live);
        let expected = match lib {
            Outcome::Returned(Ok((v, _))) => v,
            Outcome::Returned(Err(e)) => {
                cx.observe(&format!("library query of the model server failed ({:?}) for {id}", e.kind));
                return;
            }
            _ => return,
        };
        // 2. the CLI against an identical server
        let mut r2 = base.clone();
        let Some(live) = start_server(id, &mut r2, stray, lo, extremes) else { return cx.inconclusive("cannot start loopback server") };
        let mut cmd = crate::core::framework::wrapped_command(&cli());
        cx.count(&format!("host-form|{}", ["ipv4-literal", "name", "ipv6-literal", "bracketed-ipv6-literal"][if form < 4 { form as usize } else { 0 }]));
        cmd.args(["query", "-g", id, "-i", &host_arg, "-p", &live.port().to_string(), "-f", fmt, "-o", mode, "--read-timeout", "2", "--write-timeout", "2", "--connect-timeout", "2"]);
        let out = proc::run(cmd, Duration::from_secs(30));
        drop(live);
        cx.eval();
        let Ok(out) = out else { return cx.inconclusive("cannot run gamedig_cli") };
        if out.timed_out {
            return cx.inconclusive("gamedig_cli cut after 30 s");
        }
        let stdout = String::from_utf8_lossy(&out.stdout).to_string();
        let stderr = String::from_utf8_lossy(&out.stderr).to_string();
        let label = format!("{id}|{fmt}|{mode}");
        let fam = format!("{:?}", game.protocol).split('(').next().unwrap_or("").to_string();
        let detail = |what: String| json!({"what": what, "case": label, "stray_datagram": stray, "exit": out.code, "stdout": stdout.chars().take(1500).collect::<String>(), "stderr": stderr.chars().take(600).collect::<String>(), "expected(lib)": expected.to_string().chars().take(1500).collect::<String>()});
        if out.code == Some(101) || stderr.contains("panicked at") {
            cx.violation(format!("C19 cli-panic format={fmt} mode={mode} family={fam}"), || detail("panic".into()));
            return;
        }
        if out.code == Some(97) && std::env::var("VERIF_CLI_WRAP").is_ok() {
            cx.violation(format!("C19 memcheck-report-in-cli family={fam}"), || detail("valgrind memcheck reported an error in the gamedig_cli process".into()));
            return;
        }
        if out.code != Some(0) {
            if fmt.starts_with("bson") && stderr.contains("UnsignedIntegerExceededRange") {
                cx.violation("C19 valid-server nonzero-exit cause=bson-unsigned-integer-above-i64-max", || detail(format!("exit {:?}", out.code)));
            } else {
                cx.violation(format!("C19 valid-server nonzero-exit format={fmt} family={fam}"), || detail(format!("exit {:?}", out.code)));
            }
            return;
        }
        let body = stdout.trim_end_matches('\n');
        match fmt {
            "debug" => {
                if body.trim().is_empty() {
                    cx.violation(format!("C19 empty-output format=debug family={fam}"), || detail("empty".into()));
                    return;
                }
                // the one document: a Rust debug rendering starts with the type name / wrapper
                if stray && body.lines().next().map(|l| l.starts_with("Err(") || l.starts_with("Ok(")).unwrap_or(false) {
                    cx.violation("C19 extra-output-before-document format=debug", || detail("library debug print on stdout".into()));
                    return;
                }
            }
            "json" | "json-pretty" => {
                let mut de = serde_json::Deserializer::from_str(body).into_iter::<Value>();
                let first = de.next();
                let second = de.next();
                match (first, second) {
                    (Some(Ok(v)), None) => {
                        if !json_equiv(&v, &expected) {
                            cx.violation(format!("C19 unfaithful format={fmt} mode={mode} family={fam}"), || detail(format!("decoded {}", v.to_string().chars().take(800).collect::<String>())));
                            return;
                        }
                    }
                    (Some(Ok(_)), Some(_)) => {
                        cx.violation(format!("C19 more-than-one-document format={fmt} family={fam}"), || detail("trailing data".into()));
                        return;
                    }
                    (None, _) => {
                        cx.violation(format!("C19 empty-output format={fmt} mode={mode} family={fam}"), || detail("nothing on stdout although exit 0".into()));
                        return;
                    }
                    (Some(Err(e)), _) => {
                        cx.violation(format!("C19 malformed format={fmt} family={fam}"), || detail(e.to_string()));
                        return;
                    }
                }
            }
            "xml" => {
                if body.trim().is_empty() {
                    cx.violation(format!("C19 empty-output format=xml mode={mode} family={fam}"), || detail("nothing on stdout although exit 0".into()));
                    return;
                }
                match check_xml(body) {
                    Err((class, why)) => {
                        cx.violation(format!("C19 malformed format=xml class={class} mode={mode} family={fam}"), || detail(why.clone()));
                        return;
                    }
                    Ok(mut leaves) => {
                        let mut exp = Vec::new();
                        json_leaves(&expected, &mut exp);
                        // NUL and the non-characters U+FFFE / U+FFFF cannot be carried by XML at all: they are expected as U+FFFD
                        for e in exp.iter_mut() {
                            if e.contains(['\0', '\u{FFFE}', '\u{FFFF}']) {
                                *e = e.replace(['\0', '\u{FFFE}', '\u{FFFF}'], "\u{FFFD}");
                            }
                        }
                        // leaves as a multiset. Integers must be the same integer digit for digit (a 64-bit identifier
                        // rounded through a float is a different value); only texts written as floats are compared by value
                        let canon = |t: &String| -> String {
                            let is_float_text = t.contains(['.', 'e', 'E']) && !t.contains(|c: char| c.is_alphabetic() && c != 'e' && c != 'E');
                            match t.parse::<f64>() {
                                Ok(x) if is_float_text && x.is_finite() => format!("\u{1}float:{:016x}", x.to_bits()),
                                _ => t.clone(),
                            }
                        };
                        let mut leaves: Vec<String> = leaves.iter().map(canon).collect();
                        let mut exp: Vec<String> = exp.iter().map(canon).collect();
                        leaves.sort();
                        exp.sort();
                        let same = leaves == exp;
                        if !same {
                            cx.violation(format!("C19 unfaithful format=xml mode={mode} family={fam}"), || detail(format!("leaf texts differ: {} vs {}", leaves.len(), exp.len())));
                            return;
                        }
                    }
                }
            }
            _ => {
                if body.trim().is_empty() {
                    cx.violation(format!("C19 empty-output format={fmt} mode={mode} family={fam}"), || detail("nothing on stdout although exit 0".into()));
                    return;
                }
                let bytes = if fmt == "bson-hex" { hex::decode(body.trim()).map_err(|e| e.to_string()) } else { base64::prelude::BASE64_STANDARD.decode(body.trim()).map_err(|e| e.to_string()) };
                let bytes = match bytes {
                    Ok(b) => b,
                    Err(e) => {
                        cx.violation(format!("C19 malformed format={fmt} family={fam}"), || detail(e.clone()));
                        return;
                    }
                };
                let mut rd = std::io::Cursor::new(&bytes);
                match bson::Document::from_reader(&mut rd) {
                    Ok(doc) => {
                        if (rd.position() as usize) != bytes.len() {
                            cx.violation(format!("C19 more-than-one-document format={fmt} family={fam}"), || detail("trailing bytes after the BSON document".into()));
                            return;
                        }
                        let v: Value = bson::Bson::Document(doc).into_relaxed_extjson();
                        if !json_equiv(&v, &expected) {
                            cx.violation(format!("C19 unfaithful format={fmt} mode={mode} family={fam}"), || detail(format!("decoded {}", v.to_string().chars().take(800).collect::<String>())));
                            return;
                        }
                    }
                    Err(e) => {
                        cx.violation(format!("C19 malformed format={fmt} family={fam}"), || detail(e.to_string()));
                        return;
                    }
                }
            }
        }
        cx.shape(&label);
        cx.count(&format!("ok|{fmt}"));
        cx.nontrivial(hash64(label.as_bytes()) ^ hash64(stdout.as_bytes()));
        cx.sample(|| json!({"case": label, "stdout_head": stdout.chars().take(200).collect::<String>()}));
    }

    fn invalid_case(&self, cx: &mut Cx) {
        // a silent UDP peer and a closed port
        let silent = std::net::UdpSocket::bind("127.0.0.1:0").ok();
        let silent_port = silent.as_ref().and_then(|s| s.local_addr().ok()).map(|a| a.port()).unwrap_or(9);
        let k = cx.rng.below(12);
        let (name, args): (&str, Vec<String>) = match k {
            0 => ("unknown-game", vec!["query".into(), "-g".into(), cx.rng.ident(8).to_lowercase() + "zz", "-i".into(), "127.0.0.1".into()]),
            1 => ("unresolvable-host", vec!["query".into(), "-g".into(), "q3a".into(), "-i".into(), "no-such-host.invalid".into()]),
            2 => ("silent-server", vec!["query".into(), "-g".into(), "q3a".into(), "-i".into(), "127.0.0.1".into(), "-p".into(), silent_port.to_string(), "--read-timeout".into(), "1".into()]),
            3 => ("closed-port-tcp", vec!["query".into(), "-g".into(), "minecraftjava".into(), "-i".into(), "127.0.0.1".into(), "-p".into(), "9".into(), "--connect-timeout".into(), "1".into()]),
            4 => ("non-numeric-timeout", vec!["query".into(), "-g".into(), "q3a".into(), "-i".into(), "127.0.0.1".into(), "--read-timeout".into(), "abc".into()]),
            5 => ("zero-timeout", vec!["query".into(), "-g".into(), "q3a".into(), "-i".into(), "127.0.0.1".into(), "-p".into(), silent_port.to_string(), ["--read-timeout", "--write-timeout", "--connect-timeout"][cx.rng.below(3) as usize].into(), "0".into()]),
            6 => ("huge-timeout-flag", vec!["query".into(), "-g".into(), "q3a".into(), "-i".into(), "127.0.0.1".into(), "--read-timeout".into(), "99999999999999999999999".into()]),
            7 => ("bad-format", vec!["query".into(), "-g".into(), "q3a".into(), "-i".into(), "127.0.0.1".into(), "-f".into(), "yaml".into()]),
            8 => ("bad-port", vec!["query".into(), "-g".into(), "q3a".into(), "-i".into(), "127.0.0.1".into(), "-p".into(), "70000".into()]),
            9 => ("negative-retries", vec!["query".into(), "-g".into(), "q3a".into(), "-i".into(), "127.0.0.1".into(), "--retries".into(), "-1".into()]),
            10 => ("bad-gather-toggle", vec!["query".into(), "-g".into(), "teamfortress2".into(), "-i".into(), "127.0.0.1".into(), "--gather-players".into(), "sometimes".into()]),
            _ => ("missing-ip", vec!["query".into(), "-g".into(), "q3a".into()]),
        };
        let mut cmd = crate::core::framework::wrapped_command(&cli());
        cmd.args(&args);
        let out = proc::run(cmd, Duration::from_secs(20));
        drop(silent);
        cx.eval();
        let Ok(out) = out else { return cx.inconclusive("cannot run gamedig_cli") };
        if out.timed_out {
            return cx.inconclusive("gamedig_cli cut after 20 s");
        }
        let stderr = String::from_utf8_lossy(&out.stderr).to_string();
        let stdout = String::from_utf8_lossy(&out.stdout).to_string();
        let detail = || json!({"invocation": args, "exit": out.code, "signal": out.signal, "stdout": stdout.chars().take(400).collect::<String>(), "stderr": stderr.chars().take(800).collect::<String>()});
        if out.code == Some(101) || stderr.contains("panicked at") || out.signal.is_some() {
            cx.violation(format!("C19 invalid-invocation panic kind={name}"), detail);
        } else if out.code == Some(0) {
            cx.violation(format!("C19 invalid-invocation exit-0 kind={name}"), detail);
        } else if stderr.trim().is_empty() {
            cx.violation(format!("C19 invalid-invocation no-error-message kind={name}"), detail);
        } else {
            cx.shape(&format!("invalid|{name}"));
            cx.count("invalid-clean");
            cx.nontrivial(hash64(format!("{args:?}").as_bytes()));
        }
    }
}

impl Check for C19 {
    fn id(&self) -> &'static str { "C19" }
    fn memcheck_plan(&self, tier: Tier) -> Option<(crate::core::framework::MemMode, Vec<(u64, u64)>)> {
        if tier != Tier::Thorough {
            return None;
        }
        let total = self.total_cases(tier);
        let n = 12u64.min(total / 16);
        Some((crate::core::framework::MemMode::Cli, (0 .. 16).map(|i| (i * (total / 16), n)).collect()))
    }
    fn rule(&self) -> String {
        "the gamedig_cli binary built from the working tree is run as a subprocess against real loopback servers speaking the reference encodings, for 20 games covering every protocol family x 6 output formats x 2 output modes, with server-supplied strings from hostile classes (markup, control characters, non-ASCII, rule keys that are not XML names, numeric extremes). Oracle: exit 0; stdout is exactly one document; JSON parses; XML passes a strict well-formedness checker (declared version's character rules, Name production, balanced tags, legal references); BSON hex/base64 decodes to exactly one document; debug output non-empty; the decoded document equals serde_json of as_json()/as_original() of the library's own answer to an identical server (numbers by value; XML by its multiset of leaf texts). 12 kinds of invalid invocation (unknown game, unresolvable host, silent server, closed port, bad flag values, zero/huge timeouts, missing argument) must exit non-zero with a message and without a panic. non-trivial = a run whose document was decoded and compared (or a clean error); distinct by (game, format, mode, stdout)".into()
    }
    fn assumptions(&self) -> Vec<String> {
        vec![
            "the library answer used as reference comes from a second, identically seeded server instance".into(),
            "XML faithfulness is compared on the multiset of leaf texts (element order follows the serializer's map order)".into(),
            "cases where the library itself rejects the model server's reply are observe-only here (C02-C07 own them)".into(),
        ]
    }
    fn total_cases(&self, tier: Tier) -> u64 { tier.pick(20 * 6 * 2 * 2 + 60, 20 * 6 * 2 * 60 + 1_500) + 2 * NAME_EDGE.len() as u64 }
    fn max_workers(&self, _tier: Tier) -> usize { 16 }
    fn run_case(&mut self, cx: &mut Cx) {
        if !cli().exists() {
            return cx.inconclusive("gamedig_cli binary not built");
        }
        let valid = GAMES.len() as u64 * 12 * cx.tier.pick(2, 60);
        let total = self.total_cases(cx.tier);
        let edge = 2 * NAME_EDGE.len() as u64;
        if cx.idx < valid {
            self.valid_case(cx)
        } else if cx.idx >= total - edge {
            self.name_edge_case(cx, (cx.idx - (total - edge)) as usize)
        } else {
            self.invalid_case(cx)
        }
    }
    fn sufficient(&self, _tier: Tier, m: &Stats) -> Result<(), String> {
        if m.inconclusive.contains_key("gamedig_cli binary not built") {
            return Err("gamedig_cli binary not built".into());
        }
        if m.counters.get("invalid-clean").copied().unwrap_or(0) + m.sig_counts.iter().filter(|(k, _)| k.contains("invalid-invocation")).map(|(_, v)| *v).sum::<u64>() < 10 {
            return Err("fewer than 10 invalid invocations judged".into());
        }
        Ok(())
    }
    fn extra_coverage(&self, _tier: Tier, m: &Stats) -> Value { json!({"name_edge_characters_ok": m.counters.get("name-edge-ok"), "ok_per_format": m.counters.iter().filter(|(k, _)| k.starts_with("ok|")).collect::<std::collections::BTreeMap<_, _>>(), "cases_passed(game|format|mode)": m.shapes.len()}) }
    fn budget_s(&self, tier: Tier) -> u64 { tier.pick(200, 2400) }
}
