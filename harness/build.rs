//! Generates tables of the per-game query functions by scanning /repo's game_query_mod! invocations,
//! so that games added to (or removed from) the repository are picked up without editing the harness.
use std::fmt::Write as _;
use std::path::Path;

fn scan(file: &str) -> Vec<(String, String)> {
    let src = std::fs::read_to_string(file).unwrap_or_default();
    let mut out = Vec::new();
    let mut rest = src.as_str();
    while let Some(i) = rest.find("game_query_mod!(") {
        rest = &rest[i + "game_query_mod!(".len() ..];
        let t = rest.trim_start();
        let ident: String = t.chars().take_while(|c| c.is_alphanumeric() || *c == '_').collect();
        let after = &t[ident.len() ..];
        let pretty = match after.find('"') {
            Some(q) => {
                let s = &after[q + 1 ..];
                let mut p = String::new();
                let mut esc = false;
                for c in s.chars() {
                    if esc {
                        p.push(c);
                        esc = false;
                    } else if c == '\\' {
                        esc = true;
                    } else if c == '"' {
                        break;
                    } else {
                        p.push(c);
                    }
                }
                p
            }
            None => String::new(),
        };
        if !ident.is_empty() {
            out.push((ident, pretty));
        }
    }
    out
}

fn main() {
    let base = "/repo/crates/lib/src/games";
    let mut code = String::new();
    for (file, table, ty) in [
        ("valve.rs", "VALVE_GAMES", "fn(&std::net::IpAddr, Option<u16>) -> gamedig::GDResult<gamedig::protocols::valve::game::Response>"),
        ("unreal2.rs", "UNREAL2_GAMES", "fn(&std::net::IpAddr, Option<u16>) -> gamedig::GDResult<gamedig::protocols::unreal2::Response>"),
    ] {
        let path = format!("{base}/{file}");
        println!("cargo:rerun-if-changed={path}");
        let games = scan(&path);
        writeln!(code, "pub static {table}: &[(&str, &str, {ty})] = &[").unwrap();
        for (m, p) in games {
            writeln!(code, "    ({m:?}, {p:?}, gamedig::games::{m}::query),").unwrap();
        }
        writeln!(code, "];").unwrap();
    }
    // gamespy / quake: the response type depends on the version argument (third macro argument)
    for (file, table) in [("gamespy.rs", "GAMESPY_GAMES"), ("quake.rs", "QUAKE_GAMES")] {
        let path = format!("{base}/{file}");
        println!("cargo:rerun-if-changed={path}");
        let src = std::fs::read_to_string(&path).unwrap_or_default();
        writeln!(code, "pub static {table}: &[(&str, &str, &str)] = &[").unwrap();
        for (m, p) in scan(&path) {
            // version = identifier after the pretty name
            let key = format!("game_query_mod!({m},");
            let ver = src.find(&key).map(|i| &src[i + key.len() ..]).and_then(|s| s.split(',').nth(1)).map(|s| s.trim().to_string()).unwrap_or_default();
            writeln!(code, "    ({m:?}, {p:?}, {ver:?}),").unwrap();
        }
        writeln!(code, "];").unwrap();
        // dispatcher producing a boxed CommonResponse
        let fname = if file == "gamespy.rs" { "gamespy_game_query" } else { "quake_game_query" };
        writeln!(code, "pub fn {fname}(name: &str, ip: &std::net::IpAddr, port: Option<u16>) -> Option<gamedig::GDResult<Box<dyn gamedig::protocols::types::CommonResponse>>> {{\n    match name {{").unwrap();
        for (m, _) in scan(&path) {
            writeln!(code, "        {m:?} => Some(gamedig::games::{m}::query(ip, port).map(|r| Box::new(r) as Box<dyn gamedig::protocols::types::CommonResponse>)),").unwrap();
        }
        writeln!(code, "        _ => None,\n    }}\n}}").unwrap();
    }
    let out = std::env::var("OUT_DIR").unwrap();
    std::fs::write(Path::new(&out).join("game_tables.rs"), code).unwrap();
    println!("cargo:rerun-if-changed=build.rs");
}
